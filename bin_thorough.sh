#!/bin/bash
# usage: bin_thorough.sh "<props>" [evidence-out-dir]  - runs the thorough tier of each property, prints a summary line per
# property and keeps a copy of each evidence file (the caller copies them into /verif/evidence when the tree was unchanged)
cd "$(dirname "$0")"
OUT=${2:-/root/.vp/thorough-evidence}
mkdir -p "$OUT"
for p in $1; do
  s=$(date +%s)
  out=$(./check $p thorough 2>&1); rc=$?
  echo "prop=$p rc=$rc $(( $(date +%s)-s ))s $(echo "$out" | grep -c KNOWN-FINDING) known :: $(echo "$out" | grep -E "^$p thorough" | cut -c1-160)"
  if [ $rc -ne 0 ]; then echo "$out" | grep -E "VIOLATION|violation|HARNESS|  " | head -12 | cut -c1-400; fi
  [ -f evidence/$p.json ] && cp evidence/$p.json "$OUT/$p.json"
  [ -d out/$p ] && mkdir -p "$OUT/replays" && cp -r out/$p "$OUT/replays/" 2>/dev/null
done

#!/bin/bash
# usage: bin_sweep.sh "<seeds>" "<props>"  - runs quick checks over several master seeds, prints only alarms
cd "$(dirname "$0")"
for s in $1; do for p in $2; do
  out=$(VERIF_SEED=$s VERIF_WORKERS=${VERIF_WORKERS:-8} ./check $p quick 2>&1); rc=$?
  echo "seed=$s prop=$p rc=$rc $(echo "$out" | grep -c KNOWN-FINDING) known"
  if [ $rc -ne 0 ]; then echo "$out" | grep -E "VIOLATION|violation|HARNESS|  " | head -12 | cut -c1-400; fi
done; done

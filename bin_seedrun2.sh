#!/bin/bash
# usage: seedrun2.sh <patch> <prop> [tier]  runs the check against a seeded change WITHOUT touching /repo:
# a scratch worktree of /repo gets the patch, a scratch copy of /verif is pointed at it (go.mod replace + go.sum path)
P=$1; PROP=$2; TIER=${3:-quick}; TAG=$$
R=/tmp/sr-repo-$TAG; V=/tmp/sr-verif-$TAG
git -C /repo worktree add --detach $R HEAD >/dev/null 2>&1 || { echo WORKTREE-FAILED; exit 3; }
git -C $R apply $P || { echo APPLY-FAILED; git -C /repo worktree remove --force $R; exit 3; }
mkdir -p $V && rsync -a --exclude .git --exclude out --exclude evidence --exclude bin/sim.test\* /verif/ $V/
sed -i "s#=> /repo#=> $R#" $V/sim/go.mod
sed -i "s#\"/repo/go.sum\"#\"$R/go.sum\"#" $V/check
cd $V && ./check $PROP $TIER 2>&1 | grep -E "VIOLATION|KNOWN|HARNESS|BUILD|$TIER:|violation|NOTE" | grep -v "^KNOWN" | head -8 | cut -c1-300; echo "exit=${PIPESTATUS[0]}"
cd /; rm -rf $V; git -C /repo worktree remove --force $R; git -C /repo worktree prune

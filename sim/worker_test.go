package sim

// Worker entry point. The simulator is a test binary because testing/synctest
// needs a *testing.T; the runner (/verif/check) builds it with `go test -c`
// and fans out worker processes.

import (
	"crypto/sha256"
	"encoding/json"
	"fmt"
	"os"
	"strconv"
	"strings"
	"testing"
)

func envInt(k string, def int) int {
	if v := os.Getenv(k); v != "" {
		if n, err := strconv.Atoi(v); err == nil {
			return n
		}
	}
	return def
}

func TestWorker(t *testing.T) {
	prop := os.Getenv("VERIF_PROP")
	if prop == "" {
		t.Skip("VERIF_PROP not set")
	}
	spec := registry[prop]
	if spec == nil {
		fmt.Printf("HARNESS unknown property %s\n", prop)
		os.Exit(2)
	}
	quietLogs()
	workerT = t
	scratch := os.Getenv("VERIF_SCRATCH")
	if scratch == "" {
		scratch = t.TempDir()
	}
	tier := os.Getenv("VERIF_TIER")
	if tier == "" {
		tier = "quick"
	}
	keepLog := os.Getenv("VERIF_KEEPLOG") == "1"

	if rp := os.Getenv("VERIF_REPLAY"); rp != "" {
		tr, err := LoadTrace(rp)
		if err != nil {
			fmt.Printf("HARNESS cannot load replay: %v\n", err)
			os.Exit(2)
		}
		want := tr.Violation
		c := tr.Clone()
		res, _ := ExecTrace(spec, c, nil, keepLog, scratch)
		if keepLog {
			fmt.Println(res.EventLog)
		}
		out := map[string]any{"property": prop, "replay": rp, "violation": res.Violation, "harness_error": res.Harness}
		b, _ := json.Marshal(out)
		fmt.Printf("REPLAY-RESULT %s\n", b)
		if res.Violation != nil && (want == nil || want.Oracle == res.Violation.Oracle) {
			fmt.Printf("REPRODUCED property=%s oracle=%s sig=%s\n%s\n", prop, res.Violation.Oracle, res.Violation.Sig, res.Violation.Detail)
			os.Exit(1)
		}
		if res.Harness != "" {
			os.Exit(2)
		}
		fmt.Printf("NOT-REPRODUCED property=%s\n", prop)
		return
	}

	seed, _ := strconv.ParseUint(os.Getenv("VERIF_SEED"), 10, 64)
	from, to := envInt("VERIF_RUN_FROM", 0), envInt("VERIF_RUN_TO", 1)
	stride := envInt("VERIF_RUN_STRIDE", 1)
	outPath := os.Getenv("VERIF_OUT")
	replayDir := os.Getenv("VERIF_REPLAY_DIR")
	if replayDir == "" {
		replayDir = scratch
	}
	var out *os.File = os.Stdout
	if outPath != "" {
		f, err := os.Create(outPath)
		if err != nil {
			fmt.Printf("HARNESS %v\n", err)
			os.Exit(2)
		}
		defer f.Close()
		out = f
	}
	deadline := envInt("VERIF_WORKER_BUDGET_S", 0)
	start := nowWall()
	for run := from; run < to; run += stride {
		res := RunOne(spec, seed, run, tier, keepLog, scratch, replayDir)
		if keepLog {
			h := sha256.Sum256([]byte(res.EventLog))
			res.Stats["__log_lines"] = int64(strings.Count(res.EventLog, "\n"))
			type withLog struct {
				*RunResult
				LogHash string `json:"log_hash"`
			}
			writeJSONLine(out, withLog{res, fmt.Sprintf("%x", h[:8])})
			if d := os.Getenv("VERIF_LOGDIR"); d != "" {
				os.WriteFile(fmt.Sprintf("%s/log-%s-%d.txt", d, prop, run), []byte(res.EventLog), 0o644)
			}
		} else {
			writeJSONLine(out, res)
		}
		if deadline > 0 && int(nowWall()-start) > deadline {
			break
		}
	}
}

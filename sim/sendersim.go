package sim

// sendersim: the real AggSender (Start loop, PP flow, status checker, initial
// state recovery, SQL storage, queries, signer, gRPC conversion) inside a
// synctest bubble against the Agglayer model, with the real L2 bridge processor
// and the real L1 info processor as its syncers (fed by the scheduler).
// Serves C02 C03 C09 C10 C13 C17 C19.

import (
	"context"
	"database/sql"
	"encoding/binary"
	"fmt"
	"math/big"
	"os"
	"path/filepath"
	"sort"
	"strings"
	"sync"
	"time"

	"github.com/0xPolygon/cdk-contracts-tooling/contracts/pp/l2-sovereign-chain/polygonrollupmanager"
	v1types "buf.build/gen/go/agglayer/interop/protocolbuffers/go/agglayer/interop/types/v1"
	v1nodetypes "buf.build/gen/go/agglayer/agglayer/protocolbuffers/go/agglayer/node/types/v1"
	agglayergrpc "github.com/agglayer/aggkit/agglayer/grpc"
	agglayertypes "github.com/agglayer/aggkit/agglayer/types"
	"github.com/agglayer/aggkit/aggsender"
	"github.com/agglayer/aggkit/aggsender/aggchainproofclient"
	aggsenderconfig "github.com/agglayer/aggkit/aggsender/config"
	aggsenderdb "github.com/agglayer/aggkit/aggsender/db"
	"github.com/agglayer/aggkit/aggsender/flows"
	aggsendertypes "github.com/agglayer/aggkit/aggsender/types"
	"github.com/agglayer/aggkit/bridgesync"
	cfgtypes "github.com/agglayer/aggkit/config/types"
	aggkitgrpc "github.com/agglayer/aggkit/grpc"
	"github.com/agglayer/aggkit/log"
	treetypes "github.com/agglayer/aggkit/tree/types"
	aggkittypes "github.com/agglayer/aggkit/types"
	"github.com/agglayer/go_signer/signer"
	"github.com/ethereum/go-ethereum/common"
	"github.com/ethereum/go-ethereum/crypto"
)

const senderPrivKey = "0x45f3ccdaff88ab1b3bb41472f09d5cde7cb20a6cbbc9197fddf64e2f3d67aaf2"

var senderAddr = func() common.Address {
	k, err := crypto.HexToECDSA(senderPrivKey[2:])
	if err != nil {
		panic(err)
	}
	return crypto.PubkeyToAddress(k.PublicKey)
}()

const senderNetworkID = 1

// epochStub is the scheduler-driven types.EpochNotifier.
type epochStub struct {
	mu  sync.Mutex
	chs []chan aggsendertypes.EpochEvent
	n   uint64
}

func (e *epochStub) Subscribe(id string) <-chan aggsendertypes.EpochEvent {
	e.mu.Lock()
	defer e.mu.Unlock()
	ch := make(chan aggsendertypes.EpochEvent)
	e.chs = append(e.chs, ch)
	return ch
}
func (e *epochStub) Start(ctx context.Context) {}
func (e *epochStub) GetEpochStatus() aggsendertypes.EpochStatus {
	return aggsendertypes.EpochStatus{Epoch: e.n, PercentEpoch: 0.9}
}
func (e *epochStub) String() string { return "epochStub" }

// Tick delivers an epoch event only if the aggsender loop is idle in its select.
func (e *epochStub) Tick() bool {
	e.mu.Lock()
	defer e.mu.Unlock()
	e.n++
	ok := false
	for _, ch := range e.chs {
		select {
		case ch <- aggsendertypes.EpochEvent{Epoch: e.n}:
			ok = true
		default:
		}
	}
	return ok
}
func (e *epochStub) Reset() { e.mu.Lock(); e.chs = nil; e.mu.Unlock() }

// l2Recorder wraps the real *BridgeSync and records what the flow was told.
type l2Recorder struct {
	*bridgesync.BridgeSync
	mu       sync.Mutex
	lastSeen []uint64
}

func (l *l2Recorder) GetLastProcessedBlock(ctx context.Context) (uint64, error) {
	v, err := l.BridgeSync.GetLastProcessedBlock(ctx)
	if err == nil {
		l.mu.Lock()
		l.lastSeen = append(l.lastSeen, v)
		l.mu.Unlock()
	}
	return v, err
}
func (l *l2Recorder) BlockFinality() aggkittypes.BlockNumberFinality { return aggkittypes.LatestBlock }
func (l *l2Recorder) GetExitRootByIndex(ctx context.Context, index uint32) (treetypes.Root, error) {
	return l.BridgeSync.GetExitRootByIndex(ctx, index)
}

type rollupDataStub struct{}

func (rollupDataStub) GetRollupData(blockNumber *big.Int) (polygonrollupmanager.PolygonRollupManagerRollupDataReturn, error) {
	return polygonrollupmanager.PolygonRollupManagerRollupDataReturn{}, nil
}

func SenderConfig(prop string, r *Rand, tier string) map[string]int64 {
	c := map[string]int64{}
	c["ops"] = int64(r.Range(40, 200))
	if tier == "thorough" {
		c["ops"] = int64(r.Range(60, 420))
	}
	c["retry_in_error"] = int64(r.Intn(2))
	c["keep_history"] = int64(r.Intn(2))
	c["one_bridge"] = 0
	if r.Bool(25) {
		c["one_bridge"] = 1
	}
	c["max_cert_size"] = 0
	if r.Bool(45) {
		c["max_cert_size"] = int64([]int{600, 1500, 3000, 8000}[r.Intn(4)])
	}
	c["max_l2_block"] = 0
	if r.Bool(20) {
		c["max_l2_block"] = int64(r.Range(3, 25))
	}
	c["status_ms"] = int64([]int{0, 1000, 5000}[r.Intn(3)])
	c["l1_density"] = int64(r.Range(30, 80))
	c["w_l1mine"] = int64(r.Range(3, 10))
	c["w_l1fin"] = int64(r.Range(3, 10))
	c["w_l1sync"] = int64(r.Range(3, 12))
	c["w_l2block"] = int64(r.Range(8, 25))
	c["w_epoch"] = int64(r.Range(8, 25))
	c["w_time"] = int64(r.Range(4, 15))
	c["w_rel"] = 50
	c["w_move"] = int64(r.Range(8, 25))
	c["p_inerror"] = int64(r.Range(5, 35))
	c["w_fault"] = int64(r.Range(0, 8))
	c["w_lost"] = 0
	c["w_crash"] = 0
	c["w_losedb"] = 0
	c["w_savefault"] = 0
	switch prop {
	case "C13":
		// the Agglayer's records are replaced by ones that contradict the node's (a restored / foreign Agglayer)
		c["w_contradict"] = 0
		if r.Bool(35) {
			c["w_contradict"] = int64(r.Range(1, 3))
		}
		c["w_crash"] = int64(r.Range(3, 10))
		c["w_losedb"] = int64(r.Range(0, 4))
		c["w_lost"] = int64(r.Range(0, 6))
		c["w_savefault"] = int64(r.Range(0, 6))
	case "C02":
		if r.Bool(25) {
			c["w_lost"] = int64(r.Range(1, 5))
		}
	}
	// every property's runs see some crash / restart histories ("all previous-certificate states" include the
	// ones only a recovery produces: headers rebuilt from what the Agglayer reports)
	if prop != "C13" && r.Bool(30) {
		c["w_crash"] = int64(r.Range(1, 5))
		c["w_losedb"] = int64(r.Range(0, 2))
	}
	c["w_crashsubmit"] = 0
	if c["w_crash"] > 0 {
		c["w_crashsubmit"] = int64(r.Range(1, 6))
	}
	c["ag_no_prev_ler"] = 0
	if r.Bool(30) {
		c["ag_no_prev_ler"] = 1
	}
	// L2 reorgs of blocks no accepted certificate covers yet (blocks of a certificate in error included, PP only)
	c["w_l2reorg"] = 0
	if r.Bool(30) {
		c["w_l2reorg"] = int64(r.Range(1, 6))
	}
	if r.Bool(15) { // fault-free batch
		c["w_fault"], c["w_lost"], c["w_crash"], c["w_losedb"], c["w_savefault"] = 0, 0, 0, 0, 0
	}
	c["big_meta"] = int64(r.Intn(2))
	// signing scheme / flow: 0 = pessimistic proof, 1 = aggchain prover (FEP)
	c["fep"] = 0
	c["w_pvodd"] = 0
	if r.Bool(40) {
		c["fep"] = 1
		c["w_pvodd"] = int64(r.Range(0, 8))
		c["one_bridge"] = 0
		// the L2 block at which the chain switched to the aggchain prover (no bridge activity up to it)
		c["start_l2"] = 0
		if r.Bool(30) {
			c["start_l2"] = int64(r.Range(1, 4))
		}
		// optimistic mode may be switched on and off while the node runs
		c["w_opt"] = 0
		if r.Bool(25) {
			c["w_opt"] = int64(r.Range(1, 3))
		}
	}
	// L1 reorgs above the finalized block; the L1 info store is brought in line later (at its next sync step): in
	// between it holds blocks of the dropped fork, possibly below a finalized pointer that has moved on
	c["w_l1reorg"] = int64([]int{0, 0, 0, 1, 2, 4}[r.Intn(6)])
	if prop == "C09" {
		// C09's subject is the choice of the L1 info root and leaves: its runs see L1 reorgs more often
		c["w_l1reorg"] = int64([]int{0, 3, 6, 10}[r.Intn(4)])
	}
	c["real_proofs"] = 0
	if prop == "C09" || r.Bool(30) {
		c["real_proofs"] = 1
	}
	// early claims: an L2 whose oracle does not wait for L1 finality lets users claim against an L1 info leaf of a
	// block that is not finalized yet (the node must hold such a claim back until the leaf is finalized, and must
	// name the leaf of the surviving fork if an L1 reorg moves it). Drawn last: other knobs keep their values.
	c["early_claims"] = 0
	if c["w_l1reorg"] > 0 && r.Bool(50) {
		c["early_claims"] = 1
	}
	// a second reader of the node's certificate database (what the node's RPC does on every status request) that runs
	// between two statements of the node's own write of an accepted certificate
	c["w_readsave"] = int64([]int{0, 0, 2, 5}[r.Intn(4)])
	return c
}

// senderWorld is everything one sendersim run owns.
type senderWorld struct {
	tr   *Trace
	cfg  map[string]int64
	rec  *Recorder
	dir  string
	w    *World
	l1   *Chain
	l1g  *L1Gen
	l1s  *L1Store
	l1synced uint64
	// l1staleFrom: first block of the L1 info store that belongs to a dropped L1 fork (0: none)
	l1staleFrom uint64
	l1staleHold int
	// earlyClaimed: global exit roots claimed on L2 while their L1 info leaf was not finalized; an L1 reorg that
	// drops such a leaf always includes the update again (a claim against a root that never exists cannot settle)
	earlyClaimed map[common.Hash]bool
	l2m  *BridgeModel
	l2s  *BridgeStore
	l2r  *l2Recorder
	ag   *AgglayerModel
	ep   *epochStub
	node *aggsender.AggSender
	ctx  context.Context
	cancel context.CancelFunc
	dbPath string
	viol *Violation
	prop string
	lostReplyEver bool
	crashedEver   bool
	lostDBEver    bool
	faultArmed    bool
	// world-level reference for claims
	usedLeaves map[uint32]bool
	cw         *claimWorld
	// aggchain-prover flow
	pv    *proverModel
	optOn bool
	// set when the node's Start goroutine panicked (deliberate fail-stop at start-up)
	panicMsg string
	// the Agglayer's records were replaced by contradicting ones: only the refusal oracle applies from here on
	contradicted bool
	// deposit counts whose bridge was replaced by an L2 reorg (probe only)
	replacedDeposits map[uint32]bool
}

// senderOwns: which oracle groups a property's check reports. The same runs feed six properties;
// a violation of another property's oracle is that property's business (counted as a probe here).
var senderOwns = map[string][]string{
	"C02": {"c02/"}, "C03": {"c03/"}, "C09": {"c09/"}, "C10": {"c10/"}, "C13": {"c13/", "c02/"},
	// "cutting the range never drops, duplicates or reorders events": the content of every certificate on the wire
	// is the bridge and claim events of exactly its own range, in chain order - the four content oracles say that
	"C17": {"c17/", "c03/exits-count", "c03/exit-field", "c03/imported-count", "c03/imported-field"},
	// the signed commitment is one of the places that carry a claim's global index (C19): the signature check
	// recomputes it from the wire message's global indexes
	"C19": {"c19/", "c10/signature"},
}

func (s *senderWorld) fail(oracle, sig, format string, a ...any) {
	owned := false
	for _, pre := range senderOwns[s.prop] {
		if strings.HasPrefix(sig, pre) {
			owned = true
		}
	}
	if !owned {
		s.rec.Stats.Inc("other_property_oracle_fired_" + sig[:3])
		return
	}
	if s.viol == nil {
		s.viol = &Violation{Oracle: oracle, Sig: sig, Detail: fmt.Sprintf(format, a...)}
	}
}

// genL2Block: bridges and claims only; claims refer to L1 info leaves at or below the L1 finalized block.
func (s *senderWorld) genL2Block(seed uint64) MBlock {
	r := NewRand(seed)
	num := s.l2m.LastBlock() + 1
	b := MBlock{Num: num, Hash: blockHash(num, seed)}
	n := 0
	switch r.Intn(10) {
	case 0, 1, 2:
	case 3, 4, 5, 6:
		n = 1
	default:
		n = r.Range(2, 4)
	}
	if num <= uint64(s.cfg["start_l2"]) {
		return b // before the start block of the aggchain prover: no bridge activity
	}
	dc := s.l2m.DepositCount()
	ts := 1700000000 + num*2
	var finLeaves, earlyLeaves []L1Leaf
	for _, l := range s.l1g.Model.Leaves {
		if l.Block <= s.l1.Finalized {
			finLeaves = append(finLeaves, l)
		} else if s.cfg["early_claims"] == 1 {
			earlyLeaves = append(earlyLeaves, l)
		}
	}
	giParts := []uint32{0, 1, 1 << 8, 1 << 16, 1 << 24, 0xFFFFFFFF, 255, 256, 65535, 65536}
	for i := 0; i < n; i++ {
		pos := uint64(i * 2)
		meta := genMeta(r)
		if s.cfg["big_meta"] == 0 && len(meta) > 200 {
			meta = meta[:200]
		}
		if r.Bool(60) || len(finLeaves) == 0 {
			b.Events = append(b.Events, bridgesync.Event{Bridge: &bridgesync.Bridge{
				BlockNum: num, BlockPos: pos, FromAddress: genAddr(r), TxHash: genHash(r), Calldata: r.Bytes(r.Intn(20)),
				BlockTimestamp: ts, LeafType: uint8(r.Intn(2)), OriginNetwork: genNet(r), OriginAddress: genAddr(r),
				DestinationNetwork: genNet(r), DestinationAddress: genAddr(r), Amount: genAmount(r), Metadata: meta,
				DepositCount: dc, IsNativeToken: r.Bool(50)}})
			dc++
			continue
		}
		leaf := finLeaves[r.Intn(len(finLeaves))]
		if r.Bool(40) {
			// boundary bias: the newest finalized leaf is the one a lagging or stale view of the L1 info tree misses
			leaf = finLeaves[len(finLeaves)-1]
		}
		if len(earlyLeaves) > 0 && r.Bool(30) {
			leaf = earlyLeaves[r.Intn(len(earlyLeaves))]
			if s.earlyClaimed == nil {
				s.earlyClaimed = map[common.Hash]bool{}
			}
			s.earlyClaimed[leaf.GER] = true
			s.rec.Stats.Inc("claims_against_an_l1_info_leaf_that_is_not_finalized_yet")
		}
		if s.cw != nil {
			if cl := s.cw.GenClaim(r, leaf, num, pos, ts); cl != nil {
				b.Events = append(b.Events, bridgesync.Event{Claim: cl})
				continue
			}
		}
		var pl, pr [32]common.Hash
		for j := range pl {
			pl[j], pr[j] = genHash(r), genHash(r)
		}
		mainnet := r.Bool(50)
		ri := giParts[r.Intn(len(giParts))]
		if r.Bool(50) {
			ri = uint32(r.Intn(4))
		}
		li := giParts[r.Intn(len(giParts))]
		if r.Bool(50) {
			li = uint32(r.Intn(1000))
		}
		if mainnet {
			ri = 0
		}
		gi := refGlobalIndex(mainnet, ri, li)
		if mainnet && r.Bool(12) {
			// not canonical but accepted by bridge contracts that ignore the rollup bits of a mainnet index:
			// mainnet flag with a non-zero rollup part. Every place must carry the SAME value for it.
			gi = new(big.Int).Or(gi, new(big.Int).Lsh(new(big.Int).SetUint64(uint64(1+r.Intn(0xFFFF))), 32))
			s.rec.Stats.Inc("mainnet_global_index_with_rollup_bits")
		}
		b.Events = append(b.Events, bridgesync.Event{Claim: &bridgesync.Claim{
			BlockNum: num, BlockPos: pos, FromAddress: genAddr(r), TxHash: genHash(r), GlobalIndex: gi,
			OriginNetwork: genNet(r), OriginAddress: genAddr(r), DestinationAddress: genAddr(r), Amount: genAmount(r),
			ProofLocalExitRoot: pl, ProofRollupExitRoot: pr, MainnetExitRoot: leaf.MER, RollupExitRoot: leaf.RER,
			GlobalExitRoot: leaf.GER, DestinationNetwork: genNet(r), Metadata: meta, IsMessage: r.Bool(30), BlockTimestamp: ts}})
	}
	return b
}

// canonGI: the canonical form of an on-chain global index (a mainnet index has no rollup part).
func canonGI(gi *big.Int) *big.Int {
	if gi.Bit(64) == 0 {
		return gi
	}
	leaf := new(big.Int).And(gi, big.NewInt(0xFFFFFFFF))
	return new(big.Int).SetBit(leaf, 64, 1)
}

// refGlobalIndex is the bridge contract's layout: mainnet<<64 | rollup<<32 | leaf.
func refGlobalIndex(mainnet bool, rollup, leaf uint32) *big.Int {
	v := new(big.Int)
	if mainnet {
		v.SetBit(v, 64, 1)
	}
	v.Or(v, new(big.Int).Lsh(new(big.Int).SetUint64(uint64(rollup)), 32))
	v.Or(v, new(big.Int).SetUint64(uint64(leaf)))
	return v
}

func (s *senderWorld) startNode() *Violation {
	s.w.BeginSetup()
	defer s.w.EndSetup()
	ctx, cancel := context.WithCancel(context.Background())
	s.ctx, s.cancel = ctx, cancel
	s.ag.epoch = s.w.Epoch
	s.ep.Reset()
	cfg := aggsenderconfig.Config{
		StoragePath:                     s.dbPath,
		AgglayerClient:                  &aggkitgrpc.ClientConfig{RequestTimeout: cfgtypes.NewDuration(time.Hour)},
		AggsenderPrivateKey:             signer.NewMockSignerConfig(senderPrivKey),
		MaxRetriesStoreCertificate:      3,
		DelayBetweenRetries:             cfgtypes.NewDuration(500 * time.Millisecond),
		KeepCertificatesHistory:         s.cfg["keep_history"] == 1,
		MaxCertSize:                     uint(s.cfg["max_cert_size"]),
		Mode:                            "PessimisticProof",
		CheckStatusCertificateInterval:  cfgtypes.NewDuration(time.Duration(s.cfg["status_ms"]) * time.Millisecond),
		RetryCertAfterInError:           s.cfg["retry_in_error"] == 1,
		RequireStorageContentCompatibility: true,
		RequireOneBridgeInPPCertificate: s.cfg["one_bridge"] == 1,
		MaxL2BlockNumber:                uint64(s.cfg["max_l2_block"]),
	}
	client := agglayergrpc.NewAgglayerGRPCClientWithServices(cfg.AgglayerClient, s.ag, s.ag, s.ag)
	l1c := &FakeClient{W: s.w, C: s.l1, Label: "l1", Epoch: s.w.Epoch}
	logger := log.WithFields("module", "aggsender")
	var node *aggsender.AggSender
	var err error
	if s.cfg["fep"] == 1 {
		cfg.Mode = "AggchainProof"
		s.pv.epoch = s.w.Epoch
		pc := aggchainproofclient.NewAggchainProofClientWithService(&aggkitgrpc.ClientConfig{RequestTimeout: cfgtypes.NewDuration(time.Hour)}, s.pv)
		optSigner, oerr := newOptimisticSigner(ctx, logger)
		if oerr != nil {
			return &Violation{Oracle: "harness", Detail: "optimistic signer: " + oerr.Error()}
		}
		node, err = aggsender.NewVerifWithFlow(ctx, logger, cfg, client, s.l2r, s.ep, func(storage aggsenderdb.AggSenderStorage) (aggsendertypes.AggsenderFlow, error) {
			return flows.VerifNewAggchainProverFlow(ctx, cfg, logger, storage, l1c, s.l1s.F, s.l2r, rollupDataStub{}, pc, gerReaderStub{s}, uint64(s.cfg["start_l2"]), optModeStub{s}, optSigner)
		})
	} else {
		node, err = aggsender.New(ctx, logger, cfg, client, s.l1s.F, s.l2r, s.ep, l1c, nil, rollupDataStub{})
	}
	if err != nil {
		return &Violation{Oracle: "harness", Detail: "aggsender.New: " + err.Error()}
	}
	s.node = node
	return nil
}

func (s *senderWorld) stopNode() {
	s.w.Kill()
	s.cancel()
	s.w.Quiesce()
	closePrivateDB(reflectField(s.node, "storage"), "db")
	s.w.Revive()
}

// readRows reads the node's certificate table through a separate read-only connection.
// status column of the node's certificate tables (the node's own enumeration, not the wire's)
const (
	rowInError = 3
	rowSettled = 4
)

type certRow struct {
	Height    uint64
	ID        common.Hash
	Status    int
	From, To  uint64
	Retry     int
	SignedRaw string
	PrevLER   string
	NewLER    string
}

func (s *senderWorld) readRows(table string) ([]certRow, error) {
	db, err := sql.Open("sqlite3", "file:"+s.dbPath+"?mode=ro")
	if err != nil {
		return nil, err
	}
	defer db.Close()
	rows, err := db.Query("SELECT height, certificate_id, status, from_block, to_block, retry_count, COALESCE(signed_certificate,''), COALESCE(previous_local_exit_root,''), new_local_exit_root FROM " + table + " ORDER BY height, retry_count")
	if err != nil {
		return nil, err
	}
	defer rows.Close()
	var out []certRow
	for rows.Next() {
		var r certRow
		var id string
		if err := rows.Scan(&r.Height, &id, &r.Status, &r.From, &r.To, &r.Retry, &r.SignedRaw, &r.PrevLER, &r.NewLER); err != nil {
			return nil, err
		}
		r.ID = common.HexToHash(id)
		out = append(out, r)
	}
	return out, nil
}

// eventsIn returns the model bridges / claims of L2 blocks [from,to].
func (s *senderWorld) eventsIn(from, to uint64) ([]*bridgesync.Bridge, []*bridgesync.Claim) {
	var bs []*bridgesync.Bridge
	var cs []*bridgesync.Claim
	for _, b := range s.l2m.Blocks {
		if b.Num < from || b.Num > to {
			continue
		}
		for _, e := range b.Events {
			ev := e.(bridgesync.Event)
			if ev.Bridge != nil {
				bs = append(bs, ev.Bridge)
			}
			if ev.Claim != nil {
				cs = append(cs, ev.Claim)
			}
		}
	}
	return bs, cs
}

func metaHashOrNil(m []byte) []byte {
	if len(m) == 0 {
		return nil
	}
	h := keccakBytes(m)
	return h[:]
}

// checkWireExit compares a wire bridge exit with the model event fields.
func checkWireExit(be *v1types.BridgeExit, leafType uint8, on uint32, oa common.Address, dn uint32, da common.Address, amount *big.Int, meta []byte) string {
	wantLT := v1types.LeafType_LEAF_TYPE_TRANSFER
	if leafType == 1 {
		wantLT = v1types.LeafType_LEAF_TYPE_MESSAGE
	}
	if be.LeafType != wantLT {
		return fmt.Sprintf("leaf type %v, event has %d", be.LeafType, leafType)
	}
	if be.TokenInfo == nil || be.TokenInfo.OriginNetwork != on || common.BytesToAddress(be.TokenInfo.OriginTokenAddress.GetValue()) != oa {
		return "origin network / token address differ"
	}
	if be.DestNetwork != dn || common.BytesToAddress(be.DestAddress.GetValue()) != da {
		return "destination network / address differ"
	}
	got := new(big.Int)
	if be.Amount != nil {
		got.SetBytes(be.Amount.Value)
	}
	want := amount
	if want == nil {
		want = big.NewInt(0)
	}
	if got.Cmp(want) != 0 {
		return fmt.Sprintf("amount %s, event has %s", got, want)
	}
	wm := metaHashOrNil(meta)
	var gm []byte
	if be.Metadata != nil {
		gm = be.Metadata.Value
	}
	if string(wm) != string(gm) {
		return fmt.Sprintf("metadata hash %x, expected %x", gm, wm)
	}
	return ""
}

// onSubmit holds the online oracles of C02 C03 C10 C17 C19 (run inside the Agglayer model).
func (s *senderWorld) onSubmit(sub *Submission) {
	if s.contradicted {
		return
	}
	s.rec.Stats.Inc("submissions")
	if sub.Accepted {
		s.rec.Stats.Inc("submissions_accepted")
	} else {
		s.rec.Stats.Inc("submissions_rejected")
	}
	if sub.ReplacesInError != nil && sub.Accepted {
		s.rec.Stats.Inc("replacements_of_inerror")
	}
	c := sub.Wire
	// ---- C02: chain rules ----
	if sub.OpenCert != nil && !s.lostReplyEver {
		s.fail("chain", "c02/submitted-while-undecided", "certificate (height %d, blocks %d..%d) submitted while certificate %s at height %d is still undecided (status %d)", c.Height, sub.From, sub.To, sub.OpenCert.ID.Hex()[:10], sub.OpenCert.Height, sub.OpenCert.Status)
	}
	// after a reply was lost the node cannot know what the Agglayer holds: its rejected attempts are the
	// Agglayer's business; accepted ones are still held to the rules
	if sub.OpenCert == nil && (sub.Accepted || !s.lostReplyEver) {
		if c.Height != sub.ExpectedHeight {
			s.fail("chain", "c02/wrong-height", "certificate submitted with height %d; last settled height+1 is %d", c.Height, sub.ExpectedHeight)
		}
		if fb32(c.PrevLocalExitRoot) != sub.ExpectedPrevLER {
			s.fail("chain", "c02/wrong-prev-ler", "certificate at height %d starts from exit root %s; the settled exit root is %s", c.Height, fb32(c.PrevLocalExitRoot).Hex()[:12], sub.ExpectedPrevLER.Hex()[:12])
		}
		expFrom := sub.ExpectedFrom
		if expFrom == 0 {
			expFrom = 1 + uint64(s.cfg["start_l2"])
		}
		if sub.From != expFrom {
			s.fail("chain", "c02/wrong-first-block", "certificate at height %d starts at block %d; the block after the last settled block is %d", c.Height, sub.From, expFrom)
		}
		if r := sub.ReplacesInError; r != nil && (r.Height != c.Height || r.From != sub.From) {
			s.fail("chain", "c02/replacement-differs", "replacement of in-error certificate (height %d, first block %d) has height %d, first block %d", r.Height, r.From, c.Height, sub.From)
		}
	}
	// ---- C03: content follows from the events of its block range ----
	if sub.To < sub.From {
		s.fail("content", "c03/metadata-range", "certificate metadata encodes blocks %d..%d", sub.From, sub.To)
		return
	}
	bs, cs := s.eventsIn(sub.From, sub.To)
	if sub.ReplacesInError != nil && len(bs) > 0 && s.replacedDeposits[bs[len(bs)-1].DepositCount] {
		s.rec.Stats.Inc("replacements_whose_last_bridge_was_replaced_by_a_reorg")
	}
	if len(c.BridgeExits) != len(bs) {
		s.fail("content", "c03/exits-count", "certificate for blocks %d..%d carries %d bridge exits; those blocks have %d bridge events", sub.From, sub.To, len(c.BridgeExits), len(bs))
		return
	}
	for i, be := range c.BridgeExits {
		b := bs[i]
		if d := checkWireExit(be, b.LeafType, b.OriginNetwork, b.OriginAddress, b.DestinationNetwork, b.DestinationAddress, b.Amount, b.Metadata); d != "" {
			s.fail("content", "c03/exit-field", "bridge exit %d of certificate %d..%d differs from deposit %d of block %d: %s", i, sub.From, sub.To, b.DepositCount, b.BlockNum, d)
			return
		}
	}
	if len(c.ImportedBridgeExits) != len(cs) {
		s.fail("content", "c03/imported-count", "certificate for blocks %d..%d carries %d imported exits; those blocks have %d claim events", sub.From, sub.To, len(c.ImportedBridgeExits), len(cs))
		return
	}
	for i, ibe := range c.ImportedBridgeExits {
		cl := cs[i]
		lt := uint8(0)
		if cl.IsMessage {
			lt = 1
		}
		if d := checkWireExit(ibe.BridgeExit, lt, cl.OriginNetwork, cl.OriginAddress, cl.DestinationNetwork, cl.DestinationAddress, cl.Amount, cl.Metadata); d != "" {
			s.fail("content", "c03/imported-field", "imported exit %d of certificate %d..%d differs from the claim in block %d: %s", i, sub.From, sub.To, cl.BlockNum, d)
			return
		}
		// ---- C19: the wire message carries the on-chain global index ----
		if ibe.GlobalIndex == nil || len(ibe.GlobalIndex.Value) != 32 {
			s.fail("global-index", "c19/wire-global-index-missing", "imported exit %d carries no 32-byte global index on the wire (%d bytes); the claim event has %s", i, len(ibe.GlobalIndex.GetValue()), cl.GlobalIndex)
			return
		}
		if wireGlobalIndex(ibe).Cmp(canonGI(cl.GlobalIndex)) != 0 {
			s.fail("global-index", "c19/wire-global-index", "imported exit %d carries global index %s, the claim event has %s", i, wireGlobalIndex(ibe), cl.GlobalIndex)
			return
		}
		if canonGI(cl.GlobalIndex).Cmp(cl.GlobalIndex) != 0 {
			// a mainnet index with rollup bits is not a canonical value (C19's quantifier): only "every place carries
			// the same value" (the canonical one) is judged for it
			continue
		}
		mf, ri, li, err := bridgesync.DecodeGlobalIndex(cl.GlobalIndex)
		if err != nil || refGlobalIndex(mf, ri, li).Cmp(cl.GlobalIndex) != 0 || bridgesync.GenerateGlobalIndex(mf, ri, li).Cmp(cl.GlobalIndex) != 0 {
			s.fail("global-index", "c19/roundtrip", "global index %s decodes to (%v,%d,%d) which does not compose back to it", cl.GlobalIndex, mf, ri, li)
			return
		}
		s.rec.Stats.Inc("global_indexes_checked")
	}
	// exit root: appending the exit hashes to the tree at prevLER yields newLER
	countBefore := 0
	for _, b := range s.l2m.Blocks {
		if b.Num < sub.From {
			for _, e := range b.Events {
				if e.(bridgesync.Event).Bridge != nil {
					countBefore++
				}
			}
		}
	}
	tree := RefAppend{}
	for i := 0; i < countBefore; i++ {
		tree.Append(s.l2m.Tree.Leaves[i])
	}
	prevRoot := RefAppendRoot(nil)
	if countBefore > 0 {
		prevRoot = tree.Roots[countBefore-1]
	}
	if fb32(c.PrevLocalExitRoot) == prevRoot {
		root := prevRoot
		for _, be := range c.BridgeExits {
			root = tree.Append(refExitHashProto(be))
		}
		if root != fb32(c.NewLocalExitRoot) {
			s.fail("content", "c03/new-ler", "certificate %d..%d: appending its %d exit hashes to the tree at its previous exit root gives %s, it names %s", sub.From, sub.To, len(c.BridgeExits), root.Hex()[:12], fb32(c.NewLocalExitRoot).Hex()[:12])
			return
		}
		s.rec.Stats.Inc("exit_roots_checked")
	} else if sub.OpenCert == nil && sub.Accepted {
		s.fail("content", "c03/prev-ler-tree", "certificate %d..%d: its previous exit root %s is not the exit tree root before block %d (%s)", sub.From, sub.To, fb32(c.PrevLocalExitRoot).Hex()[:12], sub.From, prevRoot.Hex()[:12])
		return
	} else {
		// whatever the Agglayer says about it: the certificate's own previous root, if it is a root of the
		// exit tree at all, plus its exits must give the root it names
		pl := fb32(c.PrevLocalExitRoot)
		k := -1
		if pl == RefAppendRoot(nil) {
			k = 0
		}
		for i, rt := range s.l2m.Tree.Roots {
			if rt == pl {
				k = i + 1
			}
		}
		if k >= 0 {
			t2 := RefAppend{}
			for i := 0; i < k; i++ {
				t2.Append(s.l2m.Tree.Leaves[i])
			}
			root := pl
			for _, be := range c.BridgeExits {
				root = t2.Append(refExitHashProto(be))
			}
			if root != fb32(c.NewLocalExitRoot) {
				s.fail("content", "c03/new-ler", "certificate %d..%d: its previous exit root is the exit tree's root after %d deposits; appending its %d exit hashes there gives %s, it names %s", sub.From, sub.To, k, len(c.BridgeExits), root.Hex()[:12], fb32(c.NewLocalExitRoot).Hex()[:12])
				return
			}
		}
	}
	// ---- C10: the signature commits to what is sent ----
	var commitment common.Hash
	var sig []byte
	switch {
	case c.AggchainData != nil && c.AggchainData.GetGeneric() != nil:
		// aggchain-proof scheme: the prover's answer arrives unchanged and the signature covers the FEP commitment
		g := c.AggchainData.GetGeneric()
		commitment = wireFEPCommitment(c)
		if g.Signature != nil {
			sig = g.Signature.Value
		}
		var pr *proverResp
		for _, x := range s.pv.Resps {
			if x.Params == fb32(g.AggchainParams) {
				pr = x
			}
		}
		sp := g.GetSp1Stark()
		if pr == nil || sp == nil || string(sp.Proof) != string(pr.Proof) || string(sp.Vkey) != string(pr.Vkey) || sp.Version != pr.Version ||
			fmt.Sprint(g.Context) != fmt.Sprint(pr.Context) || string(c.CustomChainData) != string(pr.Custom) {
			s.fail("signature", "c10/aggchain-data-differs", "certificate at height %d: the aggchain proof, its parameters, context or the custom chain data are not those of any answer of the prover", c.Height)
			return
		}
		if pr.LastProven+1 != sub.From || pr.EndBlock != sub.To {
			s.fail("cut", "c17/range-vs-proof", "certificate at height %d covers blocks %d..%d but carries the proof the prover gave for %d..%d", c.Height, sub.From, sub.To, pr.LastProven+1, pr.EndBlock)
			return
		}
		s.rec.Stats.Inc("fep_certificates")
	default:
		var giHashes []byte
		for _, ibe := range c.ImportedBridgeExits {
			h := keccakBytes(leBytes(wireGlobalIndex(ibe)))
			giHashes = append(giHashes, h[:]...)
		}
		inner := keccakBytes(giHashes)
		commitment = keccakBytes(pad(c.NewLocalExitRoot.Value, 32), inner[:])
		if c.AggchainData != nil && c.AggchainData.GetSignature() != nil {
			sig = c.AggchainData.GetSignature().Value
		}
	}
	if len(sig) != 65 {
		s.fail("signature", "c10/no-signature", "certificate at height %d carries a %d byte signature", c.Height, len(sig))
		return
	}
	sg := append([]byte{}, sig...)
	if sg[64] >= 27 {
		sg[64] -= 27
	}
	pub, err := crypto.SigToPub(commitment[:], sg)
	if err != nil || crypto.PubkeyToAddress(*pub) != senderAddr {
		s.fail("signature", "c10/signature", "the signature on certificate height %d does not recover the configured signer over the commitment recomputed from the wire message (err=%v)", c.Height, err)
		return
	}
	s.rec.Stats.Inc("signatures_checked")
	// ---- C17: the cut of the block range ----
	s.checkCut(sub, bs, cs)
	// ---- C09: claim proofs verify against the named L1 info root ----
	if s.cw != nil {
		s.checkClaimProofs(sub)
	}
}

// checkCut: the last block of a certificate is the largest permitted one.
func (s *senderWorld) checkCut(sub *Submission, bs []*bridgesync.Bridge, cs []*bridgesync.Claim) {
	if s.cfg["fep"] == 1 {
		// the aggchain-prover flow cuts the range before it asks for the proof: judged in onProverRequest;
		// the certificate then covers exactly the range the prover proved (c17/range-vs-proof)
		return
	}
	s.l2r.mu.Lock()
	seen := append([]uint64(nil), s.l2r.lastSeen...)
	s.l2r.mu.Unlock()
	if len(seen) == 0 {
		return
	}
	synced := seen[len(seen)-1] // what the flow read when it built this certificate
	limit := synced
	if m := uint64(s.cfg["max_l2_block"]); m > 0 && m < limit {
		limit = m
	}
	if sub.To > limit {
		s.fail("cut", "c17/beyond-limit", "certificate ends at block %d; last synced block was %d and the configured last block is %d", sub.To, synced, s.cfg["max_l2_block"])
		return
	}
	size := func(to uint64) uint {
		p := &aggsendertypes.CertificateBuildParams{FromBlock: sub.From, ToBlock: to, CertificateType: aggsendertypes.CertificateTypePP}
		b, c := s.eventsIn(sub.From, to)
		for _, x := range b {
			p.Bridges = append(p.Bridges, *x)
		}
		for _, x := range c {
			p.Claims = append(p.Claims, *x)
		}
		return p.EstimatedSize()
	}
	max := uint(s.cfg["max_cert_size"])
	if max > 0 && size(sub.To) > max && sub.To != sub.From {
		s.fail("cut", "c17/over-size", "certificate %d..%d has estimated size %d > limit %d although it spans more than one block", sub.From, sub.To, size(sub.To), max)
		return
	}
	// maximality: no larger permitted last block fits
	if sub.To < limit {
		fits := max == 0 || size(sub.To+1) <= max
		if fits {
			s.fail("cut", "c17/not-maximal", "certificate ends at block %d although block %d is synced, permitted (limit %d) and the range %d..%d still fits the size limit %d (size %d)", sub.To, sub.To+1, limit, sub.From, sub.To+1, max, size(sub.To+1))
			return
		}
		s.rec.Stats.Inc("certs_cut_by_size")
	}
	if uint64(s.cfg["max_l2_block"]) > 0 && sub.To == uint64(s.cfg["max_l2_block"]) && synced > sub.To {
		s.rec.Stats.Inc("certs_cut_by_last_block")
	}
	s.rec.Stats.Inc("cuts_checked")
}

// checkStored (C10/C13): after quiescence the node's own copy equals what was sent; one row per height.
func (s *senderWorld) checkStored(ctx string) {
	if s.contradicted {
		return
	}
	rows, err := s.readRows("certificate_info")
	if err != nil {
		return
	}
	seenH := map[uint64]bool{}
	for _, r := range rows {
		if seenH[r.Height] {
			s.fail("storage", "c13/two-rows-per-height", "%s: two certificate rows for height %d", ctx, r.Height)
			return
		}
		seenH[r.Height] = true
		ac, ok := s.ag.Certs[r.ID]
		if !ok {
			s.fail("storage", "c13/unknown-certificate-stored", "%s: stored certificate %s (height %d) was never accepted by the Agglayer", ctx, r.ID.Hex()[:12], r.Height)
			return
		}
		if r.From != ac.From || r.To != ac.To || r.Height != ac.Height {
			s.fail("storage", "c13/stored-range", "%s: stored certificate height %d blocks %d..%d; the Agglayer has height %d blocks %d..%d for that id", ctx, r.Height, r.From, r.To, ac.Height, ac.From, ac.To)
			return
		}
		if common.HexToHash(r.NewLER) != ac.NewLER {
			s.fail("storage", "c13/stored-ler", "%s: stored new exit root differs from the certificate's", ctx)
			return
		}
		if r.SignedRaw == "" || r.SignedRaw == "na/agglayer header" {
			continue
		}
		var parsed agglayertypes.Certificate
		if err := parsed.UnmarshalJSON([]byte(r.SignedRaw)); err != nil {
			s.fail("storage", "c10/stored-json", "%s: stored signed certificate does not parse: %v", ctx, err)
			return
		}
		if parsed.Hash() != wireCertID(ac.Wire) {
			s.fail("storage", "c10/stored-differs", "%s: re-hashing the stored copy of certificate height %d gives %s; the id computed from the wire message is %s", ctx, r.Height, parsed.Hash().Hex()[:12], wireCertID(ac.Wire).Hex()[:12])
			return
		}
		if ac.Wire.AggchainData != nil && ac.Wire.AggchainData.GetGeneric() != nil {
			if parsed.FEPHashToSign() != wireFEPCommitment(ac.Wire) {
				s.fail("storage", "c10/stored-commitment", "%s: the (aggchain-proof) commitment of the stored copy differs from the one of the wire message", ctx)
				return
			}
			ad, ok := parsed.AggchainData.(*agglayertypes.AggchainDataProof)
			g := ac.Wire.AggchainData.GetGeneric()
			if !ok || string(ad.Signature) != string(g.Signature.GetValue()) || string(ad.Proof) != string(g.GetSp1Stark().GetProof()) ||
				ad.AggchainParams != fb32(g.AggchainParams) || string(parsed.CustomChainData) != string(ac.Wire.CustomChainData) {
				s.fail("storage", "c10/stored-aggchain-data", "%s: the aggchain data of the stored copy of certificate height %d differs from what was sent", ctx, r.Height)
				return
			}
		} else if parsed.PPHashToSign() != wirePPCommitment(ac) {
			s.fail("storage", "c10/stored-commitment", "%s: the commitment of the stored copy differs from the one of the wire message", ctx)
			return
		}
		s.rec.Stats.Inc("stored_copies_checked")
	}
}

func wirePPCommitment(ac *AgCert) common.Hash {
	var giHashes []byte
	for _, ibe := range ac.Wire.ImportedBridgeExits {
		h := keccakBytes(leBytes(wireGlobalIndex(ibe)))
		giHashes = append(giHashes, h[:]...)
	}
	inner := keccakBytes(giHashes)
	return keccakBytes(pad(ac.Wire.NewLocalExitRoot.Value, 32), inner[:])
}

// wireFEPCommitment recomputes the aggchain-proof signing commitment from the wire message:
// keccak(newLER, keccak(concat_i(le32(globalIndex_i) || exitHash_i)), le64(height), aggchainParams).
func wireFEPCommitment(c *v1nodetypes.Certificate) common.Hash {
	var chunks []byte
	for _, ibe := range c.ImportedBridgeExits {
		chunks = append(chunks, leBytes(wireGlobalIndex(ibe))...)
		h := refExitHashProto(ibe.BridgeExit)
		chunks = append(chunks, h[:]...)
	}
	inner := keccakBytes(chunks)
	params := keccakBytes(nil)
	if g := c.AggchainData.GetGeneric(); g != nil {
		params = fb32(g.AggchainParams)
	}
	return keccakBytes(pad(c.NewLocalExitRoot.Value, 32), inner[:], u64le(c.Height), params[:])
}

func u64le(v uint64) []byte { b := make([]byte, 8); binary.LittleEndian.PutUint64(b, v); return b }

func RunSender(prop string, tr *Trace, sc *Script, rec *Recorder, scratch string) (viol *Violation) {
	InstallSQLiteHooks()
	perr := InBubble(workerT, func() {
		defer func() {
			if r := recover(); r != nil {
				viol = &Violation{Oracle: "harness", Detail: fmt.Sprintf("scheduler panic: %v", r)}
			}
		}()
		viol = runSender(prop, tr, sc, rec, scratch)
	})
	if perr != nil && viol == nil {
		viol = &Violation{Oracle: "harness", Detail: fmt.Sprintf("bubble panic: %v", perr)}
	}
	return viol
}

func runSender(prop string, tr *Trace, sc *Script, rec *Recorder, scratch string) *Violation {
	cfg := tr.Cfg
	dir := filepath.Join(scratch, fmt.Sprintf("snd-%d-%d", tr.Seed, tr.Run))
	os.RemoveAll(dir)
	os.MkdirAll(dir, 0o755)
	defer os.RemoveAll(dir)
	s := &senderWorld{tr: tr, cfg: cfg, rec: rec, dir: dir, prop: prop, w: NewWorld(rec), l1: NewChain(1, tr.Seed), l1g: NewL1Gen(),
		l2m: &BridgeModel{}, ep: &epochStub{}, dbPath: filepath.Join(dir, "aggsender.sqlite")}
	s.l1s = NewL1Store(filepath.Join(dir, "l1info.sqlite"))
	s.l2s = NewBridgeStore(filepath.Join(dir, "l2bridge.sqlite"))
	if err := s.l1s.Open(); err != nil {
		return &Violation{Oracle: "harness", Detail: err.Error()}
	}
	defer s.l1s.Close()
	if err := s.l2s.Open(); err != nil {
		return &Violation{Oracle: "harness", Detail: err.Error()}
	}
	defer s.l2s.Close()
	s.l2r = &l2Recorder{BridgeSync: s.l2s.P.Facade(senderNetworkID)}
	if cfg["real_proofs"] == 1 {
		s.cw = newClaimWorld()
		s.l1g.Roots = s.cw.NextRoots
	}
	s.ag = NewAgglayerModel(s.w, senderNetworkID, RefAppendRoot(nil))
	s.ag.OnSubmit = s.onSubmit
	s.ag.NoPrevLER = cfg["ag_no_prev_ler"] == 1
	s.pv = &proverModel{s: s, w: s.w}
	if v := s.startNode(); v != nil {
		return v
	}
	s.goStart()
	s.w.Quiesce()
	defer func() { s.stopNode() }()

	syncL1 := func(to uint64) *Violation {
		if s.l1staleFrom != 0 {
			// the L1 info syncer handles the reorg. Like the real one it only has rows for blocks with events (and
			// the last block of a download step), and its detector reports the first STORED block whose hash changed,
			// which may lie above the real fork point
			first := uint64(0)
			if err := s.l1s.P.DB().QueryRow("SELECT COALESCE(MIN(num),0) FROM block WHERE num >= ?", s.l1staleFrom).Scan(&first); err != nil {
				return &Violation{Oracle: "harness", Detail: "l1 store rows: " + err.Error()}
			}
			if first != 0 {
				if err := s.l1s.Reorg(first); err != nil {
					return &Violation{Oracle: "harness", Detail: fmt.Sprintf("l1 store Reorg(%d): %v", first, err)}
				}
				rec.Stats.Inc("l1_store_rewound_after_l1_reorg")
				if first > s.l1staleFrom {
					rec.Stats.Inc("l1_store_rewound_from_above_the_fork_point")
				}
			}
			s.l1synced, s.l1staleFrom = s.l1staleFrom-1, 0
		}
		end := min(to, s.l1.HeadNum())
		for s.l1synced < end {
			b := s.l1.Canon[s.l1synced+1]
			mb, _ := b.Payload.(MBlock)
			mb.Num, mb.Hash = b.Num(), b.Hash
			// blocks without events leave no row, except the last block of the step (the downloader's marker)
			if len(mb.Events) > 0 || b.Num() == end {
				if err := s.l1s.ProcessBlock(mb); err != nil {
					return &Violation{Oracle: "harness", Detail: fmt.Sprintf("l1 store ProcessBlock(%d): %v", b.Num(), err)}
				}
			}
			s.l1synced++
		}
		return nil
	}
	addL2 := func(seed uint64) *Violation {
		b := s.genL2Block(seed)
		if err := s.l2s.ProcessBlock(b); err != nil {
			return &Violation{Oracle: "harness", Detail: fmt.Sprintf("l2 store ProcessBlock(%d): %v", b.Num, err)}
		}
		s.l2m.Apply(b)
		rec.Stats.Inc("l2_blocks")
		return nil
	}

	gen := func(r *Rand) (Op, bool) {
		labels := s.w.ParkedLabels()
		wts := []int{int(cfg["w_l1mine"]), int(cfg["w_l1fin"]), int(cfg["w_l1sync"]), int(cfg["w_l2block"]), int(cfg["w_epoch"]), int(cfg["w_time"]),
			int(cfg["w_rel"]), int(cfg["w_move"]), int(cfg["w_fault"]), int(cfg["w_lost"]), int(cfg["w_crash"]), int(cfg["w_losedb"]), int(cfg["w_savefault"]), int(cfg["w_pvodd"]), int(cfg["w_opt"]), int(cfg["w_crashsubmit"]), int(cfg["w_contradict"]), int(cfg["w_l2reorg"]), int(cfg["w_l2reorg"]), int(cfg["w_l1reorg"]), int(cfg["w_savefault"]), int(cfg["w_readsave"])}
		if s.l1.HeadNum() <= s.l1.Finalized {
			wts[19] = 0
		}
		if s.l1staleFrom != 0 && s.l1staleHold > 0 {
			// the L1 info syncer has not noticed the reorg yet (its detector's interval): meanwhile finality moves,
			// claims arrive and epochs tick
			s.l1staleHold--
			wts[2] = 0
			wts[1] *= 3
			wts[3] *= 2
			wts[4] *= 2
		}
		if o := s.ag.open(); o == nil || s.nodeIsBuilding() || o.To <= s.l2ReorgFloorWithout(o) {
			wts[18] = 0
		}
		if s.l2ReorgFloor() >= s.l2m.LastBlock() || s.nodeIsBuilding() {
			wts[17] = 0
		} else if s.ag.Latest != nil && s.ag.Latest.Status == agInError {
			wts[17] *= 5 // the blocks of a certificate in error are about to be certified again
		}
		if len(labels) == 0 {
			wts[6], wts[8], wts[9] = 0, 0, 0
		}
		if s.w.FirstParked("pv") == nil {
			wts[13] = 0
		}
		if s.ag.open() == nil {
			wts[7] = 0
		}
		if cfg["status_ms"] == 0 {
			wts[5] = wts[5] / 3
		}
		hasSubmit := false
		for _, p := range s.w.Parked() {
			if p.method == "SubmitCertificate" {
				hasSubmit = true
			}
		}
		if !hasSubmit {
			wts[9] = 0
			wts[15] = 0
			wts[20] = 0
			wts[21] = 0
		} else {
			wts[15] *= 6 // the window is short: take it when it is open
			wts[20] *= 4
			wts[21] *= 4
		}
		switch r.Pick(wts) {
		case 19:
			return Op{K: "l1reorg", A: []int64{int64(r.U64() >> 1), int64(r.Range(1, 4)), int64(r.Range(1, 5))}}, true
		case 0:
			n := r.Range(1, 4)
			if r.Bool(20) {
				n = r.Range(5, 15) // the L1 tip moves on by many blocks between two looks
			}
			return Op{K: "l1mine", A: []int64{int64(r.U64() >> 1), int64(n)}}, true
		case 1:
			return Op{K: "l1fin", A: []int64{int64(r.Range(0, 5))}}, true
		case 2:
			n := r.Range(1, 6)
			if r.Bool(25) {
				n = r.Range(8, 30) // a long download step: rows only for the blocks with events and for its last block
			}
			return Op{K: "l1sync", A: []int64{int64(n)}}, true
		case 3:
			return Op{K: "l2block", A: []int64{int64(r.U64() >> 1)}}, true
		case 4:
			return Op{K: "epoch"}, true
		case 5:
			return Op{K: "time", A: []int64{[]int64{500, 1000, 5000}[r.Intn(3)]}}, true
		case 6:
			return Op{K: "rel", S: labels[r.Intn(len(labels))], A: []int64{0}}, true
		case 7:
			e := int64(0)
			if r.Bool(int(cfg["p_inerror"])) {
				e = 1
			}
			return Op{K: "move", A: []int64{e}}, true
		case 8:
			return Op{K: "rel", S: labels[r.Intn(len(labels))], A: []int64{1}}, true
		case 9:
			return Op{K: "rel", S: "ag", A: []int64{replyAcceptedButLost}}, true
		case 10:
			return Op{K: "crash", A: []int64{0}}, true
		case 11:
			return Op{K: "crash", A: []int64{1}}, true
		case 14:
			return Op{K: "opt"}, true
		case 15:
			return Op{K: "crashsubmit"}, true
		case 20:
			return Op{K: "failsave", A: []int64{int64(1 + r.Intn(8))}}, true
		case 21:
			return Op{K: "readsave", A: []int64{int64(1 + r.Intn(6))}}, true
		case 16:
			return Op{K: "contradict", A: []int64{int64(r.Intn(3))}}, true
		case 18:
			return Op{K: "errreorg", A: []int64{int64(r.U64() >> 1)}}, true
		case 17:
			return Op{K: "l2reorg", A: []int64{int64(1 + r.Intn(3)), int64(r.U64() >> 1), int64(r.Intn(3)), int64(r.Intn(2))}}, true
		case 13:
			// the prover answers with a shorter range / has no proof yet / times out
			return Op{K: "rel", S: "pv", A: []int64{[]int64{replyStale, replyStale, replyNotFound, replyDeadline}[r.Intn(4)]}}, true
		default:
			return Op{K: "savefault", A: []int64{int64(1 + r.Intn(6))}}, true
		}
	}

	apply := func(op Op) *Violation {
		rec.Stats.Inc("steps")
		if v := s.reviveIfExited(); v != nil {
			return v
		}
		switch op.K {
		case "l1mine":
			r := NewRand(uint64(op.Arg(0)))
			for i := int64(0); i < op.Arg(1); i++ {
				s.l1.Mine(r.U64(), s.l1g.Fill(r, int(cfg["l1_density"])))
			}
			rec.Step("A")
		case "l1reorg":
			d := uint64(op.Arg(1))
			if s.l1.HeadNum() <= s.l1.Finalized {
				return nil
			}
			if d > s.l1.HeadNum()-s.l1.Finalized {
				d = s.l1.HeadNum() - s.l1.Finalized
			}
			keep := s.l1.HeadNum() - d
			r := NewRand(uint64(op.Arg(0)))
			// most of the dropped L1 info updates are included again on the new fork (same exit roots, other block)
			var carry [][2]common.Hash
			for _, l := range s.l1g.Model.Leaves {
				if l.Block > keep && (r.Bool(70) || s.earlyClaimed[l.GER]) {
					carry = append(carry, [2]common.Hash{l.MER, l.RER})
					if s.earlyClaimed[l.GER] {
						rec.Stats.Inc("l1_reorgs_that_moved_a_claimed_not_yet_finalized_l1_info_leaf")
					}
				}
			}
			s.l1.Rewind(keep)
			s.l1g.Rebuild(s.l1)
			// ... right away or behind one or two other blocks
			for i := r.Intn(3); i > 0; i-- {
				s.l1.Mine(r.U64(), s.l1g.Fill(r, int(cfg["l1_density"])))
			}
			s.l1g.Carry = carry
			if len(carry) > 0 {
				rec.Stats.Add("l1_info_updates_included_again_after_an_l1_reorg", int64(len(carry)))
			}
			for i := int64(0); i < op.Arg(2); i++ {
				s.l1.Mine(r.U64(), s.l1g.Fill(r, int(cfg["l1_density"])))
			}
			rec.Stats.Inc("l1_reorgs")
			if s.l1synced > keep && (s.l1staleFrom == 0 || keep+1 < s.l1staleFrom) {
				s.l1staleFrom = keep + 1
				s.l1staleHold = r.Range(2, 12)
				rec.Stats.Inc("l1_reorgs_of_blocks_the_l1_info_store_holds")
			}
			rec.Step(fmt.Sprintf("K%d", d))
		case "l1fin":
			if s.l1staleFrom != 0 && s.l1.Finalized+uint64(op.Arg(0)) >= s.l1staleFrom {
				rec.Stats.Inc("finality_passed_blocks_the_l1_info_store_still_holds_from_a_dropped_fork")
			}
			s.l1.Finalized = min(s.l1.Finalized+uint64(op.Arg(0)), s.l1.HeadNum())
			s.l1.Safe = max(s.l1.Safe, s.l1.Finalized)
			rec.Step("F")
		case "l1sync":
			if v := syncL1(s.l1synced + uint64(op.Arg(0))); v != nil {
				return v
			}
			rec.Step("S")
		case "l2block":
			if v := addL2(uint64(op.Arg(0))); v != nil {
				return v
			}
			rec.Step("B")
		case "errreorg":
			// the open certificate is rejected and, before the node builds its replacement, the L2 chain replaces the
			// blocks from the certificate's last bridge on with the same transactions carrying other values
			o := s.ag.open()
			if o == nil || s.nodeIsBuilding() {
				return nil
			}
			bs, _ := s.eventsIn(o.From, o.To)
			if len(bs) == 0 || bs[len(bs)-1].BlockNum <= s.l2ReorgFloorWithout(o) {
				return nil
			}
			s.ag.Move(true)
			rec.Stats.Inc("agglayer_inerror")
			first := bs[len(bs)-1].BlockNum
			var old []MBlock
			for _, b := range s.l2m.Blocks {
				if b.Num >= first {
					old = append(old, b)
				}
			}
			if err := s.l2s.Reorg(first); err != nil {
				return &Violation{Oracle: "harness", Detail: fmt.Sprintf("l2 store Reorg(%d): %v", first, err)}
			}
			s.l2m.Rewind(first)
			if v := s.remineSameShape(old, NewRand(uint64(op.Arg(0)))); v != nil {
				return v
			}
			rec.Stats.Inc("l2_reorgs")
			rec.Stats.Inc("l2_reorgs_of_blocks_of_a_certificate_in_error")
			rec.Step("EG")
		case "l2reorg":
			// the L2 chain replaces its last blocks; never a block an accepted certificate covers, never while the
			// node is in the middle of building a certificate (it would submit the old fork's content: a race the node
			// cannot see, outside the properties)
			if s.nodeIsBuilding() {
				return nil
			}
			floor, last := s.l2ReorgFloor(), s.l2m.LastBlock()
			if last <= floor {
				return nil
			}
			first := floor + 1
			if d := uint64(op.Arg(0)); d <= last && last+1-d > floor {
				first = last + 1 - d
			}
			if err := s.l2s.Reorg(first); err != nil {
				return &Violation{Oracle: "harness", Detail: fmt.Sprintf("l2 store Reorg(%d): %v", first, err)}
			}
			dcBefore := s.l2m.DepositCount()
			inErr := s.ag.Latest != nil && s.ag.Latest.Status == agInError
			var old []MBlock
			for _, b := range s.l2m.Blocks {
				if b.Num >= first {
					old = append(old, b)
				}
			}
			dropped := s.l2m.Rewind(first)
			// the new fork is there at once (a reorg replaces blocks, the syncer sees the rewind and the new blocks
			// between two polls of the aggsender)
			rr := NewRand(uint64(op.Arg(1)))
			if op.Arg(3) == 1 || (cfg["fep"] == 1 && first <= s.inErrorTo()) {
				if v := s.remineSameShape(old, rr); v != nil {
					return v
				}
			} else {
				// same length, one shorter or one longer, other content
				for i := 0; i < dropped-1+int(op.Arg(2)); i++ {
					if v := addL2(rr.U64()); v != nil {
						return v
					}
				}
			}
			rec.Stats.Inc("l2_reorgs")
			if inErr {
				rec.Stats.Inc("l2_reorgs_of_blocks_of_a_certificate_in_error")
				if s.l2m.DepositCount() == dcBefore {
					rec.Stats.Inc("l2_reorgs_in_error_same_deposit_count")
				}
			}
			rec.Step("G")
		case "epoch":
			if s.ep.Tick() {
				rec.Stats.Inc("epoch_ticks_delivered")
				s.w.Quiesce()
				rec.Step("E")
			} else {
				rec.Stats.Inc("epoch_ticks_while_busy")
				rec.Step("e")
			}
		case "time":
			s.w.Advance(time.Duration(op.Arg(0)) * time.Millisecond)
			rec.Step("T")
		case "rel":
			p := s.w.FirstParked(op.S)
			if p == nil {
				return nil
			}
			mode := int(op.Arg(0))
			if mode == replyAcceptedButLost {
				p = nil
				for _, q := range s.w.Parked() {
					if q.method == "SubmitCertificate" {
						p = q
					}
				}
				if p == nil {
					return nil
				}
				s.lostReplyEver = true
				rec.Stats.Inc("fault_reply_lost_after_accept")
			} else if mode != replyOK {
				rec.Stats.Inc("rpc_fault_1_" + p.method)
			}
			rec.Step("r" + p.method[:4] + fmt.Sprint(mode))
			s.w.Release(p, mode)
		case "move":
			what := s.ag.Move(op.Arg(0) == 1)
			if what != "" {
				rec.Stats.Inc("agglayer_" + what)
			}
			rec.Step("m" + what)
		case "crash":
			if v := s.crash(op.Arg(0) == 1); v != nil {
				return v
			}
			rec.Step(fmt.Sprintf("X%d", op.Arg(0)))
		case "contradict":
			return s.contradict(int(op.Arg(0)))
		case "crashsubmit":
			// the Agglayer accepts the certificate, the node dies before it can record it
			var p *parkedCall
			for _, q := range s.w.Parked() {
				if q.method == "SubmitCertificate" {
					p = q
				}
			}
			if p == nil {
				return nil
			}
			rec.Stats.Inc("fault_reply_lost_after_accept")
			rec.Stats.Inc("crash_after_accept_before_store")
			s.w.Release(p, replyAcceptedButLost)
			if v := s.crash(false); v != nil {
				return v
			}
			rec.Step("cs")
		case "failsave":
			// the Agglayer accepts the certificate and the k-th statement the node then runs on its database fails
			// (mostly inside its attempt to record the certificate): at that instant no record that existed before has
			// vanished from the durable tables ("a failed write leaves the previous record intact"); the node's retry
			// of the write then goes through
			var p *parkedCall
			for _, q := range s.w.Parked() {
				if q.method == "SubmitCertificate" {
					p = q
				}
			}
			if p == nil || s.faultArmed {
				return nil
			}
			before, err1 := s.readRows("certificate_info")
			beforeH, err2 := s.readRows("certificate_info_history")
			if err1 != nil || err2 != nil {
				return &Violation{Oracle: "harness", Detail: fmt.Sprintf("certificate tables: %v %v", err1, err2)}
			}
			k := int(op.Arg(0))
			plan := &FaultPlan{FailAt: k, OneShot: true, YieldAt: k}
			inStep := true
			plan.Yield = func() {
				if !inStep {
					return
				}
				now, e1 := s.readRows("certificate_info")
				nowH, e2 := s.readRows("certificate_info_history")
				if e1 != nil || e2 != nil {
					return // the tables cannot be read at this instant (locked): not judged
				}
				rec.Stats.Inc("failed_writes_judged_at_the_failing_statement")
				// Which operation the failing statement belongs to is not visible from here (after recording the
				// certificate the node may go straight on to a status check): what every operation guarantees is
				// judged - a height that had a record still has one (a record is replaced, never removed first)
				has := map[uint64]bool{}
				for _, r := range now {
					has[r.Height] = true
				}
				for _, r := range before {
					if !has[r.Height] {
						s.fail("storage", "c13/failed-write-changed-record", "a write of the node failed at statement %d after the certificate was accepted; at that instant the durable record of height %d (certificate %s) is gone although nothing has replaced it", k, r.Height, r.ID.Hex()[:12])
					}
				}
				_, _ = nowH, beforeH
			}
			ArmFault(s.dbPath, plan)
			s.faultArmed = true
			s.w.Release(p, replyOK)
			// only statements the node runs before it blocks again are judged
			inStep = false
			if plan.Fired == 0 {
				DisarmFault(s.dbPath)
				s.faultArmed = false
				rec.Stats.Inc("failsave_attempt_had_fewer_statements")
			}
			rec.Step("fs")
		case "readsave":
			// the Agglayer accepts the certificate; while the node records it, at the first write statement at or
			// after its k-th statement (transaction open, nothing committed), another reader asks the node's storage
			// for the last sent certificate - the call the node's RPC makes for every status request. Nothing is
			// judged here: whatever that reader leaves behind in the node must not change what the node does next
			// (the oracles on the certificates that follow judge that).
			var p *parkedCall
			for _, q := range s.w.Parked() {
				if q.method == "SubmitCertificate" {
					p = q
				}
			}
			st, _ := reflectField(s.node, "storage").(interface {
				GetLastSentCertificate() (*aggsendertypes.Certificate, error)
			})
			if p == nil || s.faultArmed || st == nil {
				return nil
			}
			plan := &FaultPlan{YieldAt: int(op.Arg(0)), YieldWritesOnly: true}
			inStep := true
			plan.Yield = func() {
				if !inStep {
					return
				}
				if _, err := st.GetLastSentCertificate(); err == nil {
					rec.Stats.Inc("rpc_reads_of_the_last_certificate_inside_the_nodes_write_of_an_accepted_certificate")
				}
			}
			ArmFault(s.dbPath, plan)
			s.w.Release(p, replyOK)
			inStep = false
			DisarmFault(s.dbPath)
			rec.Step("rs")
		case "opt":
			s.optOn = !s.optOn
			rec.Stats.Inc("optimistic_mode_toggled")
			rec.Step("O")
		case "savefault":
			ArmFault(s.dbPath, &FaultPlan{FailAt: int(op.Arg(0)), OneShot: true})
			s.faultArmed = true
			rec.Step("f")
		}
		if s.faultArmed {
			if p := faultPlanOf(s.dbPath); p != nil && p.Fired > 0 {
				rec.Stats.Inc("fault_aggsender_db_stmt")
				DisarmFault(s.dbPath)
				s.faultArmed = false
			}
		}
		if s.viol != nil {
			return s.viol
		}
		s.checkStored("after " + op.String())
		if s.viol != nil {
			return s.viol
		}
		rec.Event("after %s: parked=[%s] l2=%d l1=%d/%d/%d settled=%d open=%v subs=%d", op, s.w.ParkedDigest(), s.l2m.LastBlock(), s.l1.HeadNum(), s.l1.Finalized, s.l1synced, len(s.ag.Settled), s.ag.open() != nil, len(s.ag.Subs))
		st := 0
		if o := s.ag.open(); o != nil {
			st = o.Status
		} else if s.ag.Latest != nil {
			st = s.ag.Latest.Status
		}
		rec.State(fmt.Sprintf("%d:%d:%d:%s", len(s.ag.Settled), st, int(s.l2m.LastBlock())-int(lastTo(s.ag)), s.w.ParkedDigest()))
		return nil
	}

	for {
		op, ok := sc.Next(gen)
		if !ok {
			break
		}
		if v := apply(op); v != nil {
			if v == runOver {
				return nil
			}
			return v
		}
	}
	return s.drain(syncL1, addL2)
}

func lastTo(m *AgglayerModel) uint64 {
	if t := m.settledTip(); t != nil {
		return t.To
	}
	return 0
}

// crash stops the node at a quiescent point and restarts it (optionally having lost its database).
func (s *senderWorld) crash(loseDB bool) *Violation {
	for _, p := range s.w.Parked() {
		if p.method == "SubmitCertificate" {
			s.rec.Stats.Inc("crash_with_submit_in_flight")
		}
	}
	// the process is gone: a storage fault armed for it cannot fire in the goroutines that are being torn down
	DisarmFault(s.dbPath)
	s.faultArmed = false
	s.stopNode()
	s.crashedEver = true
	// the start-up reconciliation learns what the Agglayer holds: the relaxation for lost replies ends here
	s.lostReplyEver = false
	s.rec.Stats.Inc("crash_restart")
	if loseDB {
		removeDBFiles(s.dbPath)
		s.lostDBEver = true
		s.rec.Stats.Inc("crash_database_lost")
	}
	if v := s.startNode(); v != nil {
		return v
	}
	s.goStart()
	s.w.Quiesce()
	return nil
}

// errRunOver ends a run early without a violation (sentinel, never reported).
var runOver = &Violation{Oracle: "run-over"}

// contradict (C13: "it refuses to proceed when its records contradict the Agglayer's"): the node is stopped, the
// Agglayer's records are replaced by ones no honest Agglayer could hold given what the node has recorded, the
// node is started again and everything it waits for is granted. It must neither submit anything nor touch its
// records. The run ends here.
//   kind 0: a different certificate at the height of the node's last certificate (which is not in error)
//   kind 1: the Agglayer knows nothing of this network
//   kind 2: the Agglayer's last certificate is below the node's last one
func (s *senderWorld) contradict(kind int) *Violation {
	rows, err := s.readRows("certificate_info")
	if err != nil || len(rows) == 0 {
		return nil
	}
	last := rows[0]
	for _, r := range rows {
		if r.Height > last.Height {
			last = r
		}
	}
	ac := s.ag.Certs[last.ID]
	if ac == nil {
		return nil
	}
	if s.viol != nil {
		return s.viol
	}
	// stop the node first: what it does while it is down does not matter
	DisarmFault(s.dbPath)
	s.faultArmed = false
	s.stopNode()
	if kind == 0 && last.Status == rowInError {
		kind = 2 // a different certificate over one in error is a legitimate replacement
	}
	if kind == 0 {
		// the recovery compares the LATEST certificates of both sides; when the Agglayer also holds a certificate the
		// node has not recorded yet (accepted, node died before storing it) a differing older one is not looked at
		// (observation, DESIGN 14.4): that mix is not generated
		for _, c := range s.ag.Certs {
			if c.Height > last.Height {
				kind = 1
			}
		}
	}
	if kind == 2 && last.Height == 0 {
		kind = 1
	}
	switch kind {
	case 0:
		twin := *ac
		twin.ID = keccakBytes(ac.ID[:], []byte("another history"))
		twin.NewLER = keccakBytes(ac.NewLER[:], []byte("another history"))
		delete(s.ag.Certs, ac.ID)
		s.ag.Certs[twin.ID] = &twin
		for i, c := range s.ag.Settled {
			if c == ac {
				s.ag.Settled[i] = &twin
			}
		}
		if s.ag.Latest == ac {
			s.ag.Latest = &twin
		}
	case 1:
		s.ag.Certs, s.ag.Settled, s.ag.Latest = map[common.Hash]*AgCert{}, nil, nil
	case 2:
		// forget everything from the node's last height on
		var keep []*AgCert
		for _, c := range s.ag.Settled {
			if c.Height < last.Height {
				keep = append(keep, c)
			}
		}
		s.ag.Settled = keep
		s.ag.Latest = nil
		for id, c := range s.ag.Certs {
			if c.Height >= last.Height {
				delete(s.ag.Certs, id)
			}
		}
	}
	s.rec.Stats.Inc(fmt.Sprintf("contradictions_kind_%d", kind))
	before, _ := s.readRows("certificate_info")
	nSubs := len(s.ag.Subs)
	s.contradicted = true
	if v := s.startNode(); v != nil {
		return v
	}
	s.goStart()
	s.w.Quiesce()
	for i := 0; i < 150; i++ {
		if v := s.reviveIfExited(); v != nil {
			return v
		}
		if ps := s.w.Parked(); len(ps) > 0 {
			s.w.Release(ps[0], replyOK)
		} else if !s.ep.Tick() {
			s.w.Advance(2 * time.Second)
		} else {
			s.w.Quiesce()
		}
	}
	after, _ := s.readRows("certificate_info")
	what := []string{"holds a different certificate at the node's last height", "knows nothing of this network", "is behind the node's last certificate"}[kind]
	if len(s.ag.Subs) != nSubs {
		sub := s.ag.Subs[len(s.ag.Subs)-1]
		return &Violation{Oracle: "contradiction", Sig: "c13/proceeds-despite-contradiction", Detail: fmt.Sprintf("the Agglayer %s (node's last certificate: height %d, status %d), yet after the restart the node submitted a certificate (height %d, blocks %d..%d)", what, last.Height, last.Status, sub.Height, sub.From, sub.To)}
	}
	if fmt.Sprint(before) != fmt.Sprint(after) {
		return &Violation{Oracle: "contradiction", Sig: "c13/records-changed-despite-contradiction", Detail: fmt.Sprintf("the Agglayer %s (node's last certificate: height %d, status %d), yet after the restart the node rewrote its certificate records", what, last.Height, last.Status)}
	}
	if st := s.node.Info().AggsenderStatus.Status; st == aggsendertypes.StatusCertificateStage {
		return &Violation{Oracle: "contradiction", Sig: "c13/proceeds-despite-contradiction", Detail: fmt.Sprintf("the Agglayer %s (node's last certificate: height %d, status %d), yet the node completed its start-up reconciliation and entered the certificate stage", what, last.Height, last.Status)}
	}
	s.rec.Stats.Inc("contradictions_refused")
	return runOver
}

// lastSendable: the last block <= target whose events a certificate can carry under the run's configuration
// (with "one bridge per PP certificate" a tail of claim-only blocks cannot be sent until a bridge follows).
func (s *senderWorld) lastSendable(target uint64) uint64 {
	last := uint64(0)
	for _, b := range s.l2m.Blocks {
		if b.Num > target {
			continue
		}
		for _, e := range b.Events {
			if s.cfg["one_bridge"] == 1 && s.cfg["fep"] == 0 && e.(bridgesync.Event).Bridge == nil {
				continue
			}
			last = b.Num
		}
	}
	return last
}

// remineSameShape: the dropped blocks come back with the same transactions carrying other values (same number of
// bridges and claims per block, other amounts / receivers / metadata, other hashes).
func (s *senderWorld) remineSameShape(old []MBlock, rr *Rand) *Violation {
	for _, ob := range old {
		nb := MBlock{Num: ob.Num, Hash: blockHash(ob.Num, rr.U64())}
		for _, e := range ob.Events {
			ev := cloneBridgeEvent(e.(bridgesync.Event))
			if ev.Bridge != nil {
				if s.replacedDeposits == nil {
					s.replacedDeposits = map[uint32]bool{}
				}
				s.replacedDeposits[ev.Bridge.DepositCount] = true
				ev.Bridge.Amount, ev.Bridge.DestinationAddress, ev.Bridge.TxHash = genAmount(rr), genAddr(rr), genHash(rr)
				if len(ev.Bridge.Metadata) > 0 {
					ev.Bridge.Metadata = append([]byte{byte(rr.Intn(256))}, ev.Bridge.Metadata[1:]...)
				}
			}
			if ev.Claim != nil {
				ev.Claim.TxHash = genHash(rr)
			}
			nb.Events = append(nb.Events, ev)
		}
		if err := s.l2s.ProcessBlock(nb); err != nil {
			return &Violation{Oracle: "harness", Detail: fmt.Sprintf("l2 store ProcessBlock(%d): %v", nb.Num, err)}
		}
		s.l2m.Apply(nb)
	}
	s.rec.Stats.Inc("l2_reorgs_same_shape")
	return nil
}

// l2ReorgFloor: the last L2 block that may not be reorged any more: everything an accepted certificate covers
// (a certificate in error does not count: its range is certified again), and the prover's start block. The
// aggchain-prover flow sends the SAME range again with the stored proof: there a reorg that reaches into that range
// keeps the shape of the chain (same blocks, same transactions with other values).
func (s *senderWorld) l2ReorgFloor() uint64 {
	floor := uint64(s.cfg["start_l2"])
	for _, c := range s.ag.Certs {
		if c.Status == agInError {
			continue
		}
		floor = max(floor, c.To)
	}
	return floor
}

// inErrorTo: the last block of the latest certificate in error (0 if none).
func (s *senderWorld) inErrorTo() uint64 {
	if s.ag.Latest != nil && s.ag.Latest.Status == agInError {
		return s.ag.Latest.To
	}
	return 0
}

// l2ReorgFloorWithout: the reorg floor if certificate o were in error.
func (s *senderWorld) l2ReorgFloorWithout(o *AgCert) uint64 {
	floor := uint64(s.cfg["start_l2"])
	for _, c := range s.ag.Certs {
		if c == o || c.Status == agInError {
			continue
		}
		floor = max(floor, c.To)
	}
	return floor
}

// nodeIsBuilding: an outgoing call of the certificate-building path is parked.
func (s *senderWorld) nodeIsBuilding() bool {
	for _, p := range s.w.Parked() {
		switch p.method {
		case "SubmitCertificate", "GenerateAggchainProof", "GenerateOptimisticAggchainProof", "HeaderByNumber", "GetInjectedGERsForRange":
			return true
		}
	}
	return false
}

// reviveIfExited restarts the node when its process exited at start-up (deliberate panic on a
// storage error while checking the initial status): what a process supervisor does.
func (s *senderWorld) reviveIfExited() *Violation {
	statsMu.Lock()
	pm := s.panicMsg
	s.panicMsg = ""
	statsMu.Unlock()
	if pm == "" {
		return nil
	}
	s.rec.Stats.Inc("node_exited_at_startup")
	s.rec.Event("node exited: %.120s", pm)
	return s.crash(false)
}

// goStart runs the node's Start loop. The node panics on purpose when its start-up checks hit a
// storage error (a process exit in production): that is a crash of this incarnation, the next op
// finds the node down and restarts it.
func (s *senderWorld) goStart() {
	node, ctx, epoch := s.node, s.ctx, s.w.Epoch
	go func() {
		defer func() {
			if r := recover(); r != nil {
				// what the goroutines of a killed incarnation do on their way out is not an event of the run
				if !s.w.Alive(epoch) {
					return
				}
				statsMu.Lock()
				s.panicMsg = fmt.Sprint(r)
				statsMu.Unlock()
			}
		}()
		node.Start(ctx)
	}()
}

// drain: faults stop, the L1 syncer catches up, verdicts are Settled, epochs tick; everything
// synced must settle within a bounded number of epoch ticks, exactly once and in order.
func (s *senderWorld) drain(syncL1 func(uint64) *Violation, addL2 func(uint64) *Violation) *Violation {
	rec := s.rec
	DisarmFault(s.dbPath)
	// a last L2 block with a bridge so that a trailing claims-only range can be sent when one bridge is required
	if len(s.l2m.Blocks) > 0 {
		for i := uint64(0); i < 50; i++ {
			b := s.genL2Block(s.tr.Seed + 7777 + i)
			has := false
			for _, e := range b.Events {
				if e.(bridgesync.Event).Bridge != nil {
					has = true
				}
			}
			if has {
				if err := s.l2s.ProcessBlock(b); err != nil {
					return &Violation{Oracle: "harness", Detail: err.Error()}
				}
				s.l2m.Apply(b)
				break
			}
		}
	}
	// an L1 without a single info-tree leaf cannot name an L1 info root: make sure one exists
	for i := uint64(0); len(s.l1g.Model.Leaves) == 0 && i < 200; i++ {
		r := NewRand(s.tr.Seed + 991 + i)
		s.l1.Mine(r.U64(), s.l1g.Fill(r, 90))
	}
	s.l1.Finalized = s.l1.HeadNum()
	if v := syncL1(s.l1.HeadNum()); v != nil {
		return v
	}
	target := s.l2m.LastBlock()
	if m := uint64(s.cfg["max_l2_block"]); m > 0 && m < target {
		target = m
	}
	// last block <= target that carries an event (PP sends nothing for trailing empty blocks)
	lastEvent := uint64(0)
	for _, b := range s.l2m.Blocks {
		if b.Num <= target && len(b.Events) > 0 {
			lastEvent = b.Num
		}
	}
	done := func() bool { return lastTo(s.ag) >= lastEvent && s.ag.open() == nil }
	ticks := 0
	maxTicks := 12 + 4*len(s.l2m.Blocks)
	for i := 0; i < maxTicks*40 && !done() && ticks < maxTicks; i++ {
		if v := s.reviveIfExited(); v != nil {
			return v
		}
		if ps := s.w.Parked(); len(ps) > 0 {
			s.w.Release(ps[0], replyOK)
		} else if s.ag.open() != nil {
			s.ag.Move(false)
			if s.cfg["status_ms"] > 0 {
				s.w.Advance(time.Duration(s.cfg["status_ms"]) * time.Millisecond)
			}
		} else {
			if s.ep.Tick() {
				ticks++
				s.w.Quiesce()
			} else {
				s.w.Advance(time.Second)
			}
		}
		rec.Stats.Inc("drain_steps")
		if s.viol != nil {
			return s.viol
		}
	}
	s.checkStored("after drain")
	if s.viol != nil {
		return s.viol
	}
	if !done() {
		info := s.node.Info()
		if info.AggsenderStatus.Status != aggsendertypes.StatusCertificateStage {
			// the node never left its start-up reconciliation although the Agglayer's records are those of an
			// honest Agglayer after a crash / lost reply / lost database: it refuses to proceed without a contradiction
			st := "none"
			if s.ag.Latest != nil {
				st = fmt.Sprint(s.ag.Latest.Status)
			}
			sig := "c13/recovery-refuses"
			if s.ag.Latest != nil && s.ag.Latest.Status != agSettled {
				if rows, err := s.readRows("certificate_info"); err == nil && len(rows) > 0 {
					last := rows[len(rows)-1]
					if last.Height == s.ag.Latest.Height && last.ID != s.ag.Latest.ID && last.Status == rowInError {
						sig = "c13/recovery-refuses-replacement-submitted-not-stored"
					}
				}
			}
			if s.prop != "C13" {
				rec.Stats.Inc("other_property_oracle_fired_c13")
				return nil
			}
			return &Violation{Oracle: "recovery", Sig: sig, Detail: fmt.Sprintf("after restart the node never completes its reconciliation with the Agglayer (status %q, %d epoch ticks, faults stopped): last error: %.400s; Agglayer: %d settled, latest certificate status %s", info.AggsenderStatus.Status, ticks, info.AggsenderStatus.LastError, len(s.ag.Settled), st)}
		}
		// C17: a range that reaches beyond the configured last L2 block is cut to end at that block; a node that
		// instead sends nothing for the permitted blocks has cut it to an empty result. (Runs with a size limit are
		// left out: the known size-limit stall, see DESIGN 14.4 observations.)
		if m := uint64(s.cfg["max_l2_block"]); m > 0 && s.cfg["max_cert_size"] == 0 && s.ag.open() == nil &&
			(s.ag.Latest == nil || s.ag.Latest.Status != agInError) && s.l2m.LastBlock() > m && lastTo(s.ag) < s.lastSendable(target) {
			s.fail("cut", "c17/permitted-blocks-never-certified", "the configured last L2 block is %d and blocks up to %d are synced, but the certificates end at block %d: the events of blocks %d..%d (last one with events: %d) are never certified although the node is healthy and every verdict was Settled (%d epoch ticks)", m, s.l2m.LastBlock(), lastTo(s.ag), lastTo(s.ag)+1, target, lastEvent, ticks)
			if s.viol != nil {
				return s.viol
			}
		}
		// no liveness clause in C02/C03/...: a stall of a healthy node is recorded as an observation only
		rec.Stats.Inc("observation_stall_without_error")
		if s.cfg["max_cert_size"] > 0 {
			rec.Stats.Inc("observation_stall_with_size_limit")
		}
	}
	// C02 over history: settled certificates in height order contain every exit and claim exactly once, in order
	if s.prop != "C02" && s.prop != "C13" {
		rec.Stats.Add("settled_certificates", int64(len(s.ag.Settled)))
		return nil
	}
	next := uint64(1) + uint64(s.cfg["start_l2"])
	var gotExits, wantExits []common.Hash
	var gotGI, wantGI []string
	for h, c := range s.ag.Settled {
		if c.Height != uint64(h) {
			return &Violation{Oracle: "history", Sig: "c02/height-gap", Detail: fmt.Sprintf("settled certificate #%d has height %d", h, c.Height)}
		}
		if c.From != next {
			return &Violation{Oracle: "history", Sig: "c02/block-gap", Detail: fmt.Sprintf("settled certificate height %d covers blocks %d..%d but the previous one ended at %d", c.Height, c.From, c.To, next-1)}
		}
		next = c.To + 1
		for _, be := range c.Wire.BridgeExits {
			gotExits = append(gotExits, refExitHashProto(be))
		}
		for _, ibe := range c.Wire.ImportedBridgeExits {
			gotGI = append(gotGI, wireGlobalIndex(ibe).String())
		}
	}
	bs, cs := s.eventsIn(1, next-1)
	for _, b := range bs {
		wantExits = append(wantExits, refBridgeLeaf(b.LeafType, b.OriginNetwork, b.OriginAddress, b.DestinationNetwork, b.DestinationAddress, b.Amount, b.Metadata))
	}
	for _, c := range cs {
		wantGI = append(wantGI, canonGI(c.GlobalIndex).String())
	}
	if fmt.Sprint(gotExits) != fmt.Sprint(wantExits) {
		return &Violation{Oracle: "history", Sig: "c02/exits-not-exactly-once", Detail: fmt.Sprintf("the settled certificates carry %d bridge exits for blocks 1..%d, the chain has %d there (or their order/content differs)", len(gotExits), next-1, len(wantExits))}
	}
	if fmt.Sprint(gotGI) != fmt.Sprint(wantGI) {
		return &Violation{Oracle: "history", Sig: "c02/claims-not-exactly-once", Detail: fmt.Sprintf("the settled certificates carry %d imported exits for blocks 1..%d, the chain has %d claims there (or their order differs)", len(gotGI), next-1, len(wantGI))}
	}
	rec.Stats.Add("settled_certificates", int64(len(s.ag.Settled)))
	rec.Stats.Add("settled_exits", int64(len(gotExits)))
	rec.Stats.Add("settled_claims", int64(len(gotGI)))
	_ = sort.Strings
	return nil
}

func init() {
	opl := func(cfg map[string]int64) int { return int(cfg["ops"]) }
	for _, id := range []string{"C02", "C03", "C09", "C10", "C13", "C17", "C19"} {
		id := id
		nt := func(s Stats) bool { return s["submissions_accepted"] >= 2 }
		switch id {
		case "C13":
			nt = func(s Stats) bool {
				return s["submissions_accepted"] >= 1 && s["crash_restart"]+s["fault_reply_lost_after_accept"]+s["fault_aggsender_db_stmt"] > 0
			}
		case "C17":
			nt = func(s Stats) bool { return s["cuts_checked"] >= 2 }
		case "C19":
			nt = func(s Stats) bool { return s["global_indexes_checked"] >= 2 }
		case "C10":
			nt = func(s Stats) bool { return s["signatures_checked"] >= 2 && s["stored_copies_checked"] >= 1 }
		case "C09":
			nt = func(s Stats) bool { return s["claim_proofs_verified"] >= 2 }
		}
		register(&PropSpec{ID: id, Engine: "sendersim", Config: SenderConfig, Run: RunSender, OpLimit: opl, Nontrivial: nt})
	}
}

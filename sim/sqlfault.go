package sim

// Statement-level storage faults for every SQLite connection the node opens,
// without touching /repo: the process-wide mattn driver instance that
// db.NewSQLiteDB uses gets a ConnectHook; on every new connection we register
// an authorizer (deny the k-th statement), a commit hook (turn COMMIT into
// ROLLBACK) and use them as observation points too (statement counting, crash
// image capture in the middle of a transaction).

import (
	"bytes"
	"database/sql"
	"io"
	"os"
	"path/filepath"
	"runtime"
	"strings"
	"sync"

	sqlite3 "github.com/mattn/go-sqlite3"
)

// FaultPlan describes what to do to statements on one database file.
type FaultPlan struct {
	// FailAt: 1-based index (within the armed window) of the counted
	// statement to deny; 0 = none. Counted statements are INSERT / DELETE /
	// UPDATE / SELECT authorizer callbacks on non-internal tables.
	FailAt int
	// FailCommit: turn the next COMMIT into a ROLLBACK (commit hook).
	FailCommit bool
	// FailBegin: deny the next BEGIN.
	FailBegin bool
	// DenyAllWrites: "disk full": every INSERT/DELETE/UPDATE is denied until lifted.
	DenyAllWrites bool
	// SnapshotAt: when the k-th counted statement is about to be compiled, copy
	// the database files to SnapshotDir (a crash image taken mid-transaction).
	SnapshotAt  int
	SnapshotDir string
	// OneShot: disarm FailAt after it fired.
	OneShot bool
	// YieldAt: when the k-th counted statement is about to be compiled, run Yield on the
	// calling goroutine (a scheduling point inside a multi-statement read: another
	// component makes progress between two statements of the reader).
	YieldAt int
	Yield   func()
	Yields  int
	// RowYieldAt: run Yield while the k-th row change (insert / update / delete of a non-internal table) is being
	// executed: the statement completes, what follows sees the effect of Yield (e.g. a cancelled context)
	RowYieldAt int
	Rows       int
	// YieldOnDelete: count only DELETE statements (a rewind in progress) towards YieldAt
	YieldOnDelete bool
	// YieldWritesOnly: run Yield at the first INSERT / DELETE / UPDATE at or after the YieldAt-th counted statement.
	// Used for context cancellation: database/sql closes the rows of a running SELECT from a goroutine of its own
	// when the transaction's context dies, so how many rows a SELECT that is running at that instant still delivers is
	// decided by the Go scheduler; a write has no rows, and what follows it fails at the statement boundary.
	YieldWritesOnly bool

	// observed
	Count      int  // counted statements seen in the window
	Fired      int  // statements denied
	CommitSeen int  // COMMITs that succeeded
	CommitFail int  // COMMITs turned into ROLLBACK
	BeginFail  int
	Snapshots  int
	Rollbacks  int
	Deletes    int
}

type faultRegistry struct {
	mu    sync.Mutex
	plans map[string]*FaultPlan // by absolute db path
	files map[string]string     // conn filename -> same (debug)
}

var faults = &faultRegistry{plans: map[string]*FaultPlan{}, files: map[string]string{}}

var installOnce sync.Once

// InstallSQLiteHooks must be called before any database is opened.
func InstallSQLiteHooks() {
	installOnce.Do(func() {
		db, err := sql.Open("sqlite3", ":memory:")
		if err != nil {
			panic(err)
		}
		drv, ok := db.Driver().(*sqlite3.SQLiteDriver)
		if !ok {
			panic("sqlite3 driver is not *sqlite3.SQLiteDriver")
		}
		drv.ConnectHook = connectHook
		db.Close()
	})
}

func normPath(p string) string {
	if p == "" {
		return p
	}
	if a, err := filepath.Abs(p); err == nil {
		p = a
	}
	if r, err := filepath.EvalSymlinks(p); err == nil {
		p = r
	}
	return p
}

func connectHook(c *sqlite3.SQLiteConn) error {
	file := normPath(c.GetFilename("main"))
	if file == "" {
		return nil
	}
	c.RegisterAuthorizer(func(op int, a1, a2, a3 string) int {
		return faults.authorize(file, op, a1, a2, a3)
	})
	c.RegisterCommitHook(func() int { return faults.commit(file) })
	c.RegisterUpdateHook(func(op int, db string, table string, rowid int64) { faults.rowChange(file, table) })
	c.RegisterRollbackHook(func() { faults.rollback(file) })
	return nil
}

// Arm installs (replaces) the plan for a database file and returns it.
func ArmFault(dbPath string, p *FaultPlan) *FaultPlan {
	faults.mu.Lock()
	defer faults.mu.Unlock()
	faults.plans[normPath(dbPath)] = p
	return p
}

// Disarm removes the plan for a database file and returns what it observed.
func DisarmFault(dbPath string) *FaultPlan {
	faults.mu.Lock()
	defer faults.mu.Unlock()
	k := normPath(dbPath)
	p := faults.plans[k]
	delete(faults.plans, k)
	return p
}

func DisarmAllFaults() {
	faults.mu.Lock()
	defer faults.mu.Unlock()
	faults.plans = map[string]*FaultPlan{}
}

func isInternalTable(name string) bool {
	return strings.HasPrefix(name, "sqlite_") || name == "gorp_migrations"
}

func (f *faultRegistry) authorize(file string, op int, a1, a2, a3 string) int {
	f.mu.Lock()
	p := f.plans[file]
	if p == nil {
		f.mu.Unlock()
		return sqlite3.SQLITE_OK
	}
	switch op {
	case sqlite3.SQLITE_TRANSACTION:
		if a1 == "BEGIN" && p.FailBegin {
			p.FailBegin = false
			p.BeginFail++
			f.mu.Unlock()
			return sqlite3.SQLITE_DENY
		}
		f.mu.Unlock()
		return sqlite3.SQLITE_OK
	case sqlite3.SQLITE_INSERT, sqlite3.SQLITE_DELETE, sqlite3.SQLITE_UPDATE:
		if isInternalTable(a1) {
			f.mu.Unlock()
			return sqlite3.SQLITE_OK
		}
		if p.DenyAllWrites {
			p.Fired++
			f.mu.Unlock()
			return sqlite3.SQLITE_DENY
		}
	case sqlite3.SQLITE_SELECT:
	default:
		f.mu.Unlock()
		return sqlite3.SQLITE_OK
	}
	p.Count++
	snap := p.SnapshotAt != 0 && p.Count == p.SnapshotAt
	snapDir := p.SnapshotDir
	deny := p.FailAt != 0 && p.Count == p.FailAt
	if deny {
		p.Fired++
		if p.OneShot {
			p.FailAt = 0
		}
	}
	if snap {
		p.Snapshots++
	}
	var yield func()
	if p.YieldOnDelete {
		if op == sqlite3.SQLITE_DELETE {
			p.Deletes++
			if p.YieldAt != 0 && p.Deletes == p.YieldAt && p.Yield != nil {
				yield = p.Yield
				p.Yields++
			}
		}
	} else if p.YieldWritesOnly {
		if p.YieldAt != 0 && p.Count >= p.YieldAt && p.Yields == 0 && p.Yield != nil && op != sqlite3.SQLITE_SELECT {
			yield = p.Yield
			p.Yields++
		}
	} else if p.YieldAt != 0 && p.Count == p.YieldAt && p.Yield != nil {
		yield = p.Yield
		p.Yields++
	}
	f.mu.Unlock()
	if yield != nil {
		yield()
	}
	if snap {
		_ = CopyDBFiles(file, filepath.Join(snapDir, filepath.Base(file)))
	}
	if deny {
		return sqlite3.SQLITE_DENY
	}
	return sqlite3.SQLITE_OK
}

func (f *faultRegistry) rowChange(file, table string) {
	if isInternalTable(table) {
		return
	}
	f.mu.Lock()
	p := f.plans[file]
	if p == nil {
		f.mu.Unlock()
		return
	}
	p.Rows++
	var yield func()
	if p.RowYieldAt != 0 && p.Rows == p.RowYieldAt && p.Yield != nil {
		yield = p.Yield
		p.Yields++
	}
	f.mu.Unlock()
	if yield != nil {
		yield()
	}
}

func (f *faultRegistry) commit(file string) int {
	f.mu.Lock()
	defer f.mu.Unlock()
	p := f.plans[file]
	if p == nil {
		return 0
	}
	if p.FailCommit {
		p.FailCommit = false
		p.CommitFail++
		return 1
	}
	p.CommitSeen++
	return 0
}

func (f *faultRegistry) rollback(file string) {
	f.mu.Lock()
	defer f.mu.Unlock()
	if p := f.plans[file]; p != nil {
		p.Rollbacks++
	}
}

// CopyDBFiles copies db, -wal and -shm (crash image = exactly the bytes on disk).
func CopyDBFiles(src, dst string) error {
	if err := os.MkdirAll(filepath.Dir(dst), 0o755); err != nil {
		return err
	}
	for _, suf := range []string{"", "-wal", "-shm"} {
		in, err := os.Open(src + suf)
		if err != nil {
			if os.IsNotExist(err) {
				os.Remove(dst + suf)
				continue
			}
			return err
		}
		out, err := os.Create(dst + suf)
		if err != nil {
			in.Close()
			return err
		}
		_, err = io.Copy(out, in)
		in.Close()
		out.Close()
		if err != nil {
			return err
		}
	}
	return nil
}

// faultPlanOf returns the plan currently armed for a database file (nil if none).
func faultPlanOf(dbPath string) *FaultPlan {
	faults.mu.Lock()
	defer faults.mu.Unlock()
	return faults.plans[normPath(dbPath)]
}

// WaitTxAborted is called from a fault hook (i.e. from inside a running statement of transaction T) right after the
// context T was begun with has been cancelled. database/sql reacts to the cancellation on a goroutine of its own
// (Tx.awaitDone): it marks T as done and then waits for the running statement to finish before it rolls T back. Until
// that goroutine has run, further statements of T still succeed; afterwards they fail with ErrTxDone. Which of the two
// happens is decided by the Go scheduler, not by the simulator, so the hook waits here until the watcher goroutine is
// parked behind the running statement: from then on every continuation is the same (the cancellation is "seen" at the
// next statement boundary). Returns false when the watcher did not show up (the run is then reported as harness trouble).
func WaitTxAborted() bool {
	buf := make([]byte, 1<<20)
	for i := 0; i < 200000; i++ {
		n := runtime.Stack(buf, true)
		for _, g := range bytes.Split(buf[:n], []byte("\n\n")) {
			if bytes.Contains(g, []byte("database/sql.(*Tx).awaitDone")) && bytes.Contains(g, []byte("sync.(*RWMutex).Lock")) {
				return true
			}
		}
		runtime.Gosched()
		if i > 1000 {
			// let the OS scheduler run the other thread
			spin(50 * 1000)
		}
	}
	return false
}

//go:noinline
func spin(n int) {
	x := 0
	for i := 0; i < n; i++ {
		x += i
	}
	_ = x
}

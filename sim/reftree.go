package sim

// Naive reference Merkle trees (keccak, height 32), independent of /repo/tree.
// Append-only tree: full leaf list. Sparse tree: map index -> leaf.

import (
	"sort"

	"github.com/ethereum/go-ethereum/common"
	"golang.org/x/crypto/sha3"
)

const refHeight = 32

func keccak2(a, b common.Hash) common.Hash {
	h := sha3.NewLegacyKeccak256()
	h.Write(a[:])
	h.Write(b[:])
	var out common.Hash
	h.Sum(out[:0])
	return out
}

func keccakBytes(parts ...[]byte) common.Hash {
	h := sha3.NewLegacyKeccak256()
	for _, p := range parts {
		h.Write(p)
	}
	var out common.Hash
	h.Sum(out[:0])
	return out
}

var refZero = func() [refHeight + 1]common.Hash {
	var z [refHeight + 1]common.Hash
	for i := 1; i <= refHeight; i++ {
		z[i] = keccak2(z[i-1], z[i-1])
	}
	return z
}()

// RefSparse is a sparse Merkle tree of height 32 kept as a leaf map.
type RefSparse struct {
	Leaves map[uint32]common.Hash
}

func NewRefSparse() *RefSparse { return &RefSparse{Leaves: map[uint32]common.Hash{}} }

func (t *RefSparse) Clone() *RefSparse {
	c := NewRefSparse()
	for k, v := range t.Leaves {
		c.Leaves[k] = v
	}
	return c
}

func (t *RefSparse) Set(i uint32, h common.Hash) { t.Leaves[i] = h }

// level computes node hashes of the given level as a map index->hash.
func (t *RefSparse) levels() []map[uint64]common.Hash {
	lv := make([]map[uint64]common.Hash, refHeight+1)
	cur := map[uint64]common.Hash{}
	for k, v := range t.Leaves {
		cur[uint64(k)] = v
	}
	lv[0] = cur
	for h := 0; h < refHeight; h++ {
		next := map[uint64]common.Hash{}
		keys := make([]uint64, 0, len(cur))
		for k := range cur {
			keys = append(keys, k)
		}
		sort.Slice(keys, func(i, j int) bool { return keys[i] < keys[j] })
		for _, k := range keys {
			p := k >> 1
			if _, done := next[p]; done {
				continue
			}
			l, okl := cur[p<<1]
			r, okr := cur[p<<1|1]
			if !okl {
				l = refZero[h]
			}
			if !okr {
				r = refZero[h]
			}
			next[p] = keccak2(l, r)
		}
		cur = next
		lv[h+1] = cur
	}
	return lv
}

func (t *RefSparse) Root() common.Hash {
	lv := t.levels()
	if r, ok := lv[refHeight][0]; ok {
		return r
	}
	return refZero[refHeight]
}

// Proof returns the sibling path of leaf i (siblings[h] at height h).
func (t *RefSparse) Proof(i uint32) [refHeight]common.Hash {
	lv := t.levels()
	var p [refHeight]common.Hash
	idx := uint64(i)
	for h := 0; h < refHeight; h++ {
		sib := idx ^ 1
		if v, ok := lv[h][sib]; ok {
			p[h] = v
		} else {
			p[h] = refZero[h]
		}
		idx >>= 1
	}
	return p
}

// RefVerify recomputes the root from leaf, proof and index.
func RefVerify(leaf common.Hash, proof [refHeight]common.Hash, index uint32) common.Hash {
	n := leaf
	for h := 0; h < refHeight; h++ {
		if (index>>h)&1 == 1 {
			n = keccak2(proof[h], n)
		} else {
			n = keccak2(n, proof[h])
		}
	}
	return n
}

// RefAppendRoot computes the root of the append-only tree holding leaves[0..n)
// level by level on dense slices (no frontier, no cache).
func RefAppendRoot(leaves []common.Hash) common.Hash {
	cur := append([]common.Hash(nil), leaves...)
	for h := 0; h < refHeight; h++ {
		if len(cur) == 0 {
			return refZero[refHeight]
		}
		next := make([]common.Hash, 0, (len(cur)+1)/2)
		for i := 0; i < len(cur); i += 2 {
			r := refZero[h]
			if i+1 < len(cur) {
				r = cur[i+1]
			}
			next = append(next, keccak2(cur[i], r))
		}
		cur = next
	}
	if len(cur) == 0 {
		return refZero[refHeight]
	}
	return cur[0]
}

// RefAppend is an incremental append-only tree (keeps all leaves; roots per count).
type RefAppend struct {
	Leaves []common.Hash
	Roots  []common.Hash // Roots[i] = root after leaf i was appended
}

func (t *RefAppend) Clone() *RefAppend {
	return &RefAppend{Leaves: append([]common.Hash(nil), t.Leaves...), Roots: append([]common.Hash(nil), t.Roots...)}
}

func (t *RefAppend) Append(l common.Hash) common.Hash {
	t.Leaves = append(t.Leaves, l)
	r := RefAppendRoot(t.Leaves)
	t.Roots = append(t.Roots, r)
	return r
}

func (t *RefAppend) Truncate(n int) {
	t.Leaves = t.Leaves[:n]
	t.Roots = t.Roots[:n]
}

// ProofAt returns the proof of leaf i in the tree holding the first n leaves.
func (t *RefAppend) ProofAt(i uint32, n int) [refHeight]common.Hash {
	s := NewRefSparse()
	for k := 0; k < n; k++ {
		s.Leaves[uint32(k)] = t.Leaves[k]
	}
	return s.Proof(i)
}

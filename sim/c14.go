package sim

// C14: a syncer that detects an inconsistency fails stop.
// Engine: storesim with three real stores (A and C fed identically, B fed
// differently) driven into the halted state; every exported method of the
// facade is enumerated by reflection.

import (
	"context"
	"errors"
	"fmt"
	"os"
	"path/filepath"
	"reflect"
	"sort"
	"strings"

	"github.com/agglayer/aggkit/bridgesync"
	"github.com/agglayer/aggkit/l1infotreesync"
	"github.com/agglayer/aggkit/reorgdetector"
	aggsync "github.com/agglayer/aggkit/sync"
	aggkittypes "github.com/agglayer/aggkit/types"
	"github.com/ethereum/go-ethereum/common"
)

// stubDetector is the smallest bridgesync.ReorgDetector (never consulted by data queries).
type stubDetector struct{}

func (stubDetector) Subscribe(id string) (*reorgdetector.Subscription, error) {
	return &reorgdetector.Subscription{ReorgedBlock: make(chan uint64), ReorgProcessed: make(chan bool)}, nil
}
func (stubDetector) AddBlockToTrack(ctx context.Context, id string, n uint64, h common.Hash) error {
	return nil
}
func (stubDetector) GetFinalizedBlockType() aggkittypes.BlockNumberFinality {
	return aggkittypes.FinalizedBlock
}
func (stubDetector) String() string { return "stub" }
func (stubDetector) GetLastReorgEvent(ctx context.Context) (reorgdetector.ReorgEvent, error) {
	return reorgdetector.ReorgEvent{}, nil
}

func C14Config(prop string, r *Rand, tier string) map[string]int64 {
	c := map[string]int64{}
	c["kind"] = int64(r.Intn(2)) // bridge / l1info
	c["max_events"] = int64(r.Range(2, 4))
	c["max_gap"] = int64(r.Intn(3))
	c["ops"] = int64(r.Range(6, 24))
	c["no_removals"] = 1
	c["pre"] = int64(r.Range(0, 8)) // healthy blocks before the inconsistency
	return c
}

func facadeOf(s Store) any {
	switch x := s.(type) {
	case *BridgeStore:
		return x.P.FacadeWithDetector(1, stubDetector{})
	case *L1Store:
		return x.F
	}
	return nil
}

// genArgs builds deterministic argument tuples for a method.
func genArgs(m reflect.Method, variant int, h *DumpHint) ([]reflect.Value, bool) {
	t := m.Type
	args := make([]reflect.Value, 0, t.NumIn()-1)
	u64s := []uint64{0, 1, h.MaxBlock, h.MaxBlock + 5}
	u32s := []uint32{0, 1, h.MaxIndex, h.MaxIndex + 3}
	nU64, nU32, nHash := 0, 0, 0
	for i := 1; i < t.NumIn(); i++ {
		p := t.In(i)
		switch {
		case p == reflect.TypeOf((*context.Context)(nil)).Elem():
			args = append(args, reflect.ValueOf(bg))
		case p.Kind() == reflect.Uint64:
			v := u64s[(variant+nU64)%len(u64s)]
			if nU64 > 0 && v < u64s[(variant)%len(u64s)] { // (from,to) ranges: keep from<=to in variant 0..
				v = h.MaxBlock
			}
			nU64++
			args = append(args, reflect.ValueOf(v).Convert(p))
		case p.Kind() == reflect.Uint32:
			v := u32s[(variant+nU32)%len(u32s)]
			if strings.Contains(m.Name, "Paged") || strings.Contains(m.Name, "TokenMappings") || strings.Contains(m.Name, "LegacyTokenMigrations") {
				v = uint32(1 + (variant+nU32)%3) // page number / size must be > 0 to reach the store
			}
			nU32++
			args = append(args, reflect.ValueOf(v).Convert(p))
		case p == reflect.TypeOf(common.Hash{}):
			var hh common.Hash
			if len(h.Hashes) > 0 {
				hh = h.Hashes[(variant+nHash)%len(h.Hashes)]
			}
			nHash++
			args = append(args, reflect.ValueOf(hh))
		case p == reflect.TypeOf((*uint64)(nil)):
			if variant%2 == 0 {
				args = append(args, reflect.Zero(p))
			} else {
				v := uint64(variant % 3)
				args = append(args, reflect.ValueOf(&v))
			}
		case p == reflect.TypeOf([]uint32(nil)):
			if variant%2 == 0 {
				args = append(args, reflect.Zero(p))
			} else {
				args = append(args, reflect.ValueOf([]uint32{0, 1, 2}))
			}
		case p.Kind() == reflect.String:
			args = append(args, reflect.ValueOf("").Convert(p))
		default:
			return nil, false
		}
	}
	return args, true
}

type callOutcome struct {
	repr     string
	err      error
	panicked string
}

func callMethod(f any, m reflect.Method, args []reflect.Value) (out callOutcome) {
	defer func() {
		if r := recover(); r != nil {
			out.panicked = fmt.Sprint(r)
		}
	}()
	in := append([]reflect.Value{reflect.ValueOf(f)}, args...)
	res := m.Func.Call(in)
	var sb strings.Builder
	for _, r := range res {
		if r.Type() == reflect.TypeOf((*error)(nil)).Elem() {
			if !r.IsNil() {
				out.err = r.Interface().(error)
			}
			continue
		}
		sb.WriteString(js(r.Interface()))
		sb.WriteByte(';')
	}
	out.repr = sb.String()
	return out
}

// checkHaltedQueries enumerates every exported method of the facade.
// a, b: halted stores with different contents; c: halted store whose DB was closed.
func checkHaltedQueries(a, b, c Store, h *DumpHint, rec *Recorder) *Violation {
	fa, fb, fc := facadeOf(a), facadeOf(b), facadeOf(c)
	t := reflect.TypeOf(fa)
	names := []string{}
	for i := 0; i < t.NumMethod(); i++ {
		names = append(names, t.Method(i).Name)
	}
	sort.Strings(names)
	for _, name := range names {
		if name == "Start" { // the sync loop, not a query
			continue
		}
		m, _ := t.MethodByName(name)
		rec.Stats.Inc("methods_enumerated")
		for variant := 0; variant < 4; variant++ {
			args, ok := genArgs(m, variant, h)
			if !ok {
				return &Violation{Oracle: "harness", Detail: "cannot generate arguments for " + name + " " + m.Type.String()}
			}
			oa := callMethod(fa, m, args)
			rec.Stats.Inc("halted_calls")
			if oa.err != nil && errors.Is(oa.err, aggsync.ErrInconsistentState) {
				rec.Stats.Inc("halted_calls_guarded")
				continue
			}
			// not guarded: allowed only if it provably does not read the store
			ob := callMethod(fb, m, args)
			oc := callMethod(fc, m, args)
			reads := ""
			switch {
			case oc.err != nil && strings.Contains(oc.err.Error(), "database is closed"):
				reads = "it reached the database (closed-handle probe: " + oc.err.Error() + ")"
			case oc.panicked != "" && oa.panicked == "":
				reads = "closed-handle probe panicked: " + oc.panicked
			case oa.repr != ob.repr || errStr(oa.err) != errStr(ob.err):
				reads = "its answer depends on the stored contents"
			case oa.repr != oc.repr || errStr(oa.err) != errStr(oc.err):
				reads = "its answer changes when the database handle is closed"
			}
			if reads != "" {
				return &Violation{Oracle: "halted-query", Sig: a.Kind() + "/unguarded:" + name,
					Detail: fmt.Sprintf("%s.%s%v on a halted syncer returned %s %.200s instead of the inconsistency error, and %s", a.Kind(), name, fmtArgs(args), errStr(oa.err), oa.repr, reads)}
			}
			rec.Stats.Inc("halted_calls_storefree")
		}
	}
	return nil
}

func fmtArgs(args []reflect.Value) string {
	s := []string{}
	for _, a := range args[0:] {
		if a.Type() == reflect.TypeOf((*context.Context)(nil)).Elem() || a.Type().String() == "context.backgroundCtx" {
			continue
		}
		s = append(s, fmt.Sprintf("%.20v", a.Interface()))
	}
	return "(" + strings.Join(s, ",") + ")"
}

// genHaltBlock produces a block that must drive the store into the halted state.
func (w *storeWorld) genHaltBlock(seed uint64, gap int, variant int) MBlock {
	switch w.kind {
	case "bridge":
		r := NewRand(seed)
		var b MBlock
		for i := 0; ; i++ {
			b = GenBridgeBlock(w.bm, seed+uint64(i), gap, 4, w.legacy, false)
			nb := 0
			for _, e := range b.Events {
				if e.(bridgesync.Event).Bridge != nil {
					nb++
				}
			}
			if nb > 0 {
				break
			}
		}
		// deposit-count gap (a withheld log) or a repeated deposit count
		first := true
		for i, e := range b.Events {
			ev := e.(bridgesync.Event)
			if ev.Bridge == nil {
				continue
			}
			c := *ev.Bridge
			switch variant % 3 {
			case 0: // every deposit of the block shifted by one: a log was withheld before the block
				c.DepositCount++
			case 1: // gap in the middle of the block
				if !first || r.Bool(30) {
					c.DepositCount += 2
				} else if len(b.Events) == 1 {
					c.DepositCount += 1
				}
			case 2: // a deposit count seen before
				if c.DepositCount > 0 {
					c.DepositCount--
				} else {
					c.DepositCount += 3
				}
			}
			first = false
			b.Events[i] = bridgesync.Event{Bridge: &c}
		}
		// make sure at least one index is wrong
		exp := w.bm.DepositCount()
		okAll := true
		for _, e := range b.Events {
			if br := e.(bridgesync.Event).Bridge; br != nil {
				if br.DepositCount != exp {
					okAll = false
				}
				exp++
			}
		}
		if okAll {
			for i, e := range b.Events {
				if br := e.(bridgesync.Event).Bridge; br != nil {
					c := *br
					c.DepositCount += 5
					b.Events[i] = bridgesync.Event{Bridge: &c}
					break
				}
			}
		}
		return b
	default:
		for i := 0; ; i++ {
			b := GenL1Block(w.lm, seed+uint64(i), gap, 4, true)
			for _, e := range b.Events {
				if e.(l1infotreesync.Event).UpdateL1InfoTreeV2 != nil {
					return b
				}
			}
		}
	}
}

// RunC14 executes one C14 run.
func RunC14(prop string, tr *Trace, sc *Script, rec *Recorder, scratch string) *Violation {
	InstallSQLiteHooks()
	cfg := tr.Cfg
	kind := storeKinds[int(cfg["kind"])%2]
	dir := filepath.Join(scratch, fmt.Sprintf("c14-%d-%d", tr.Seed, tr.Run))
	os.RemoveAll(dir)
	os.MkdirAll(dir, 0o755)
	defer os.RemoveAll(dir)
	mk := func(sub string, seed uint64) (*storeWorld, error) {
		d := filepath.Join(dir, sub)
		os.MkdirAll(d, 0o755)
		return newStoreWorld(kind, d, cfg, rec, seed)
	}
	A, err := mk("a", tr.Seed)
	if err != nil {
		return &Violation{Oracle: "harness", Detail: err.Error()}
	}
	defer A.close()
	B, err := mk("b", tr.Seed)
	if err != nil {
		return &Violation{Oracle: "harness", Detail: err.Error()}
	}
	defer B.close()
	C, err := mk("c", tr.Seed)
	if err != nil {
		return &Violation{Oracle: "harness", Detail: err.Error()}
	}
	defer func() {
		if C.store != nil {
			C.close()
		}
	}()
	fail := func(oracle, sig, format string, a ...any) *Violation {
		return &Violation{Oracle: oracle, Sig: kind + "/" + sig, Detail: fmt.Sprintf(format, a...)}
	}
	halted := false
	cClosed := false

	gen := func(r *Rand) (Op, bool) {
		if !halted {
			if len(A.blocks()) < int(cfg["pre"]) || r.Bool(40) {
				return Op{K: "block", A: []int64{int64(r.U64() >> 1), int64(r.Intn(int(cfg["max_gap"]) + 1))}}, true
			}
			return Op{K: "halt", A: []int64{int64(r.U64() >> 1), int64(r.Intn(int(cfg["max_gap"]) + 1)), int64(r.Intn(3))}}, true
		}
		switch r.Pick([]int{30, 25, 20, 25, 15}) {
		case 4:
			// a reorg that would remove blocks but fails half way (storage fault): nothing is removed, the halt stays
			n := len(A.blocks())
			if n == 0 {
				return Op{K: "queries"}, true
			}
			return Op{K: "failreorg", A: []int64{int64(1 + r.Intn(min(n, 3))), int64(r.Intn(3)), int64(1 + r.Intn(12))}}, true
		case 0:
			return Op{K: "block", A: []int64{int64(r.U64() >> 1), int64(r.Intn(int(cfg["max_gap"]) + 1))}}, true
		case 1:
			return Op{K: "queries"}, true
		case 2:
			return Op{K: "reorg", A: []int64{0, int64(r.Intn(3))}}, true // above every stored block
		default:
			n := len(A.blocks())
			if n == 0 {
				return Op{K: "queries"}, true
			}
			return Op{K: "reorg", A: []int64{int64(1 + r.Intn(min(n, 3))), 0}}, true
		}
	}

	for {
		op, ok := sc.Next(gen)
		if !ok {
			break
		}
		rec.Event("op %s", op)
		switch op.K {
		case "block":
			b := A.genBlock(uint64(op.Arg(0)), int(op.Arg(1)), false)
			if halted {
				pre, _ := rawDigest(A.store)
				lp0, _ := A.store.LastProcessed()
				err := A.store.ProcessBlock(b)
				if err == nil {
					return fail("halted-advance", "advanced-while-halted", "ProcessBlock(%d) succeeded on a halted %s syncer", b.Num, kind)
				}
				if !errors.Is(err, aggsync.ErrInconsistentState) {
					return fail("halted-advance", "wrong-error-while-halted", "ProcessBlock(%d) on a halted syncer returned %v, not the inconsistency error", b.Num, err)
				}
				post, _ := rawDigest(A.store)
				lp1, _ := A.store.LastProcessed()
				if pre != post || lp0 != lp1 {
					return fail("halted-advance", "stored-while-halted", "a halted syncer changed its stored state while refusing block %d", b.Num)
				}
				rec.Stats.Inc("blocks_refused_while_halted")
				rec.Step("b!")
				continue
			}
			for _, w := range []*storeWorld{A, C} {
				if err := w.store.ProcessBlock(b); err != nil {
					return fail("process", "process-error", "ProcessBlock(%d): %v", b.Num, err)
				}
				w.applyModel(b)
			}
			bb := B.genBlock(uint64(op.Arg(0))^0x5a5a5a, int(op.Arg(1)), false)
			if err := B.store.ProcessBlock(bb); err != nil {
				return fail("harness", "process-error", "B ProcessBlock: %v", err)
			}
			B.applyModel(bb)
			rec.Step(fmt.Sprintf("B%d", len(b.Events)))
			rec.Stats.Inc("blocks")
		case "halt":
			if halted {
				continue
			}
			// the syncer must answer queries with data before it is halted (the oracle is not vacuous)
			if lp, err := A.store.LastProcessed(); err != nil || lp != A.lastBlock() {
				return fail("reference", "reference", "before halting: last processed %d err %v", lp, err)
			}
			for _, w := range []*storeWorld{A, B, C} {
				seed := uint64(op.Arg(0))
				if w == B {
					seed ^= 0x777
				}
				hb := w.genHaltBlock(seed, int(op.Arg(1)), int(op.Arg(2)))
				pre, _ := rawDigest(w.store)
				err := w.store.ProcessBlock(hb)
				if err == nil {
					return fail("halt", "inconsistency-accepted", "%s ProcessBlock(%d) accepted a block whose tree data contradicts the chain (variant %d)", kind, hb.Num, op.Arg(2))
				}
				if !errors.Is(err, aggsync.ErrInconsistentState) {
					return fail("halt", "inconsistency-wrong-error", "inconsistent block %d returned %v", hb.Num, err)
				}
				if !w.store.IsHalted() {
					return fail("halt", "not-halted", "%s syncer detected the inconsistency in block %d but did not halt", kind, hb.Num)
				}
				post, _ := rawDigest(w.store)
				if pre != post {
					return fail("halt", "partial-block", "the refused inconsistent block %d left rows behind", hb.Num)
				}
			}
			halted = true
			rec.Stats.Inc("halts")
			rec.Step(fmt.Sprintf("H%d", op.Arg(2)))
			// close C's database handle: any query that reaches the store now fails loudly
			storeDB(C.store).Close()
			cClosed = true
			if v := checkHaltedQueries(A.store, B.store, C.store, A.hint(false), rec); v != nil {
				return v
			}
		case "queries":
			if !halted || !cClosed {
				continue
			}
			if v := checkHaltedQueries(A.store, B.store, C.store, A.hint(false), rec); v != nil {
				return v
			}
			rec.Step("Q")
		case "failreorg":
			if !halted {
				continue
			}
			bl := A.blocks()
			a := int(op.Arg(0))
			if a > len(bl) {
				a = len(bl)
			}
			if a == 0 {
				continue
			}
			first := bl[len(bl)-a].Num
			var pl *FaultPlan
			switch op.Arg(1) {
			case 0:
				pl = &FaultPlan{FailAt: int(op.Arg(2))}
			case 1:
				pl = &FaultPlan{FailCommit: true}
			default:
				pl = &FaultPlan{DenyAllWrites: true}
			}
			pre, _ := rawDigest(A.store)
			ArmFault(A.store.Path(), pl)
			err := A.store.Reorg(first)
			DisarmFault(A.store.Path())
			if err == nil {
				// the fault did not reach this reorg (fewer statements): it went through like an ordinary one;
				// handled by replaying it as such
				dropped := A.rewindModel(first)
				if dropped > 0 && !A.store.IsHalted() {
					halted = false
					rec.Stats.Inc("unhalting_reorgs")
					// keep B and C simple: end the run here (the ordinary reorg op covers what follows)
					return nil
				}
				continue
			}
			rec.Stats.Inc("failed_reorgs_while_halted")
			rec.Step("RF")
			post, _ := rawDigest(A.store)
			if post != pre {
				return fail("unhalt", "failed-reorg-changed-store", "Reorg(%d) failed (%v) but the stored tables changed", first, err)
			}
			if !A.store.IsHalted() {
				return fail("unhalt", "unhalted-by-failed-reorg", "Reorg(%d) failed (%v) and removed nothing, but it cleared the halted state", first, err)
			}
		case "reorg":
			if !halted {
				continue
			}
			bl := A.blocks()
			a := int(op.Arg(0))
			if a > len(bl) {
				a = len(bl)
			}
			var first uint64
			if a == 0 {
				first = A.lastBlock() + 1 + uint64(op.Arg(1))
			} else {
				first = bl[len(bl)-a].Num
			}
			if err := A.store.Reorg(first); err != nil {
				return fail("process", "reorg-error", "Reorg(%d): %v", first, err)
			}
			dropped := A.rewindModel(first)
			if dropped == 0 {
				rec.Stats.Inc("empty_reorgs_while_halted")
				rec.Step("R0")
				if !A.store.IsHalted() {
					return fail("unhalt", "unhalted-by-empty-reorg", "Reorg(%d) removed no processed block (last stored block %d) but cleared the halted state", first, A.lastBlock())
				}
				lp, err := A.store.(interface{ FacadeLast() (uint64, error) }).FacadeLast()
				if err == nil || !errors.Is(err, aggsync.ErrInconsistentState) {
					return fail("unhalt", "unhalted-by-empty-reorg", "after an empty reorg GetLastProcessedBlock answers %d / %v instead of the inconsistency error", lp, err)
				}
				continue
			}
			rec.Stats.Inc("unhalting_reorgs")
			rec.Step(fmt.Sprintf("R%d", dropped))
			if A.store.IsHalted() {
				return fail("unhalt", "still-halted", "Reorg(%d) removed %d processed blocks but the syncer stays halted", first, dropped)
			}
			halted = false
			if err := A.checkRef(false); err != nil {
				return fail("reference", "reference", "after un-halting reorg: %v", err)
			}
			// bring B and C back in step (fresh healthy stores with A's / different history)
			B.close()
			C.store = nil
			os.RemoveAll(filepath.Join(dir, "b"))
			os.RemoveAll(filepath.Join(dir, "c"))
			var e1, e2 error
			B, e1 = mk("b", tr.Seed)
			C, e2 = mk("c", tr.Seed)
			if e1 != nil || e2 != nil {
				return &Violation{Oracle: "harness", Detail: fmt.Sprint(e1, e2)}
			}
			cClosed = false
			for _, b := range A.blocks() {
				if err := C.store.ProcessBlock(b); err != nil {
					return &Violation{Oracle: "harness", Detail: "C rebuild: " + err.Error()}
				}
				C.applyModel(b)
				bb := B.genBlock(blockSalt(b)^0x5a5a5a, 0, false)
				if err := B.store.ProcessBlock(bb); err != nil {
					return &Violation{Oracle: "harness", Detail: "B rebuild: " + err.Error()}
				}
				B.applyModel(bb)
			}
		}
		rec.State(fmt.Sprintf("%s:%v:%d", kind, halted, len(A.blocks())))
	}
	return nil
}

func blockSalt(b MBlock) uint64 {
	return uint64(b.Hash[0])<<24 | uint64(b.Hash[1])<<16 | uint64(b.Hash[2])<<8 | uint64(b.Hash[3])
}

// FacadeLast: GetLastProcessedBlock through the guarded facade.
func (s *BridgeStore) FacadeLast() (uint64, error) { return s.F.GetLastProcessedBlock(bg) }
func (s *L1Store) FacadeLast() (uint64, error)     { return s.F.GetLastProcessedBlock(bg) }

func init() {
	register(&PropSpec{ID: "C14", Engine: "storesim", Config: C14Config, Run: RunC14,
		OpLimit:    func(cfg map[string]int64) int { return int(cfg["ops"]) },
		Nontrivial: func(s Stats) bool { return s["halts"] > 0 && s["halted_calls"] > 0 }})
}

package sim

import (
	"context"
	"sync"
	"database/sql"
	"errors"
	"fmt"
	"os"
	"path/filepath"

	"github.com/agglayer/aggkit/bridgesync"
	"github.com/agglayer/aggkit/lastgersync"
	aggsync "github.com/agglayer/aggkit/sync"
)

func storeDB(s Store) *sql.DB {
	switch x := s.(type) {
	case *BridgeStore:
		return x.P.DB()
	case *L1Store:
		return x.P.DB()
	case *GERStore:
		return x.P.DB()
	}
	return nil
}

var storeKinds = []string{"bridge", "l1info", "lastger"}

// StoreSimConfig draws the swarm configuration of one storesim run.
func StoreSimConfig(prop string, r *Rand, tier string) map[string]int64 {
	c := map[string]int64{}
	c["kind"] = int64(r.Intn(3))
	c["max_events"] = int64(r.Range(2, 5))
	c["max_gap"] = int64(r.Intn(3))
	c["ops"] = int64(r.Range(8, 40))
	if tier == "thorough" {
		c["ops"] = int64(r.Range(10, 90))
	}
	// removal events reach two recorded findings when combined with reorgs; most
	// runs avoid them so that the rest of the behaviour is explored undisturbed.
	c["no_removals"] = 1
	if r.Bool(25) {
		c["no_removals"] = 0
	}
	defer func() {
		// the reorg-of-a-removal findings belong to C04; other properties do not combine the two
		if prop != "C04" && c["w_reorg"] > 0 {
			c["no_removals"] = 1
		}
	}()
	switch prop {
	case "C04":
		c["w_block"], c["w_reorg"], c["w_restart"], c["w_check"], c["w_fault"] = 60, int64(r.Range(10, 30)), int64(r.Range(0, 10)), 5, 0
	case "C07":
		// plain reorg ops belong to C04; C07 only uses Reorg as the rewind step of the per-position enumeration
		c["w_block"], c["w_reorg"], c["w_restart"], c["w_check"], c["w_fault"] = 30, 0, int64(r.Range(0, 10)), 3, int64(r.Range(25, 60))
		c["fault_free"] = 0
		if r.Bool(15) {
			c["fault_free"] = 1 // separate fault-free batch: relaxation under faults must hide no ordinary bug
			c["w_fault"] = 0
		}
	case "C08":
		c["w_block"], c["w_reorg"], c["w_restart"], c["w_check"], c["w_fault"] = 70, int64(r.Range(0, 15)), int64(r.Range(0, 10)), 0, 0
		if r.Bool(30) {
			// what is served after a failed and retried block must verify as well (the atomicity itself is C07's)
			c["w_fault"] = int64(r.Range(3, 12))
		}
		// several syncers write their trees at the same time in the real node (L1 bridge, L2 bridge, L1 info): a
		// second real store of the other tree-owning kind is fed concurrently in some ops
		c["companion"] = 0
		if r.Bool(40) {
			c["companion"] = 1
			c["w_par"] = int64(r.Range(3, 10))
		}
		c["heavy"] = 1
		c["proofs_only"] = 1 // C08 reports proof / leaf / root oracles only (twin equality is C04's)
		c["kind"] = int64(r.Intn(2)) // the two stores that own trees
		c["max_events"] = int64(r.Range(2, 6))
	}
	return c
}

// RunStoreSim executes (generates or replays) one storesim run.
func RunStoreSim(prop string, tr *Trace, sc *Script, rec *Recorder, scratch string) (viol *Violation) {
	InstallSQLiteHooks()
	cfg := tr.Cfg
	kind := storeKinds[int(cfg["kind"])%3]
	dir := filepath.Join(scratch, fmt.Sprintf("run-%d-%d", tr.Seed, tr.Run))
	os.RemoveAll(dir)
	if err := os.MkdirAll(dir, 0o755); err != nil {
		return &Violation{Oracle: "harness", Detail: err.Error()}
	}
	defer os.RemoveAll(dir)
	w, err := newStoreWorld(kind, dir, cfg, rec, tr.Seed)
	if err != nil {
		return &Violation{Oracle: "harness", Detail: "open: " + err.Error()}
	}
	defer w.close()
	defer DisarmAllFaults()
	heavy := cfg["heavy"] == 1
	var w2 *storeWorld
	if cfg["companion"] == 1 {
		other := "l1info"
		if kind == "l1info" {
			other = "bridge"
		}
		dir2 := filepath.Join(dir, "companion")
		os.MkdirAll(dir2, 0o755)
		w2, err = newStoreWorld(other, dir2, cfg, rec, tr.Seed^0x5a5a)
		if err != nil {
			return &Violation{Oracle: "harness", Detail: "open companion: " + err.Error()}
		}
		defer w2.close()
	}

	gen := func(r *Rand) (Op, bool) {
		weights := []int{int(cfg["w_block"]), int(cfg["w_reorg"]), int(cfg["w_restart"]), int(cfg["w_check"]), int(cfg["w_fault"]), int(cfg["w_par"])}
		if len(w.blocks()) == 0 {
			weights[1] = 0
		}
		if w2 == nil {
			weights[5] = 0
		}
		switch r.Pick(weights) {
		case 0:
			return Op{K: "block", A: []int64{int64(r.U64() >> 1), int64(r.Intn(int(cfg["max_gap"]) + 1))}}, true
		case 1:
			n := len(w.blocks())
			a := 0
			switch r.Intn(6) {
			case 0:
				a = 0 // above the tip
			case 1:
				a = n // from the first block
			default:
				a = 1 + r.Intn(min(n, 4))
			}
			return Op{K: "reorg", A: []int64{int64(a), int64(r.Intn(3))}}, true
		case 2:
			return Op{K: "restart"}, true
		case 3:
			return Op{K: "check"}, true
		case 5:
			return Op{K: "par", A: []int64{int64(r.U64() >> 1), int64(r.U64() >> 1), int64(r.Range(15, 50))}}, true
		case 4:
			mode := []int64{0, 0, 0, 1, 2, 3, 3, 4, 4, 5, 6, 7, 8, 8}[r.Intn(14)]
			return Op{K: "faultblock", A: []int64{int64(r.U64() >> 1), int64(r.Intn(int(cfg["max_gap"]) + 1)), mode, int64(1 + r.Intn(90)), int64(r.Intn(3))}}, true
		}
		return Op{}, false
	}

	fail := func(oracle, sig, format string, a ...any) *Violation {
		return &Violation{Oracle: oracle, Sig: kind + "/" + sig, Detail: fmt.Sprintf(format, a...)}
	}
	refCheck := func(ctx string) *Violation {
		if err := w.checkRef(heavy); err != nil {
			rec.Stats.Inc("ref_check_fail")
			if kind == "lastger" {
				if cls := w.classifyRemoval(nil); cls != "" {
					return &Violation{Oracle: "reference", Sig: cls, Detail: fmt.Sprintf("%s: %v", ctx, err)}
				}
			}
			return fail("reference", "reference", "%s: %v", ctx, err)
		}
		rec.Stats.Inc("ref_checks")
		return nil
	}

	for {
		op, ok := sc.Next(gen)
		if !ok {
			break
		}
		rec.Event("op %s", op)
		switch op.K {
		case "block":
			b := w.genBlock(uint64(op.Arg(0)), int(op.Arg(1)), false)
			if err := w.store.ProcessBlock(b); err != nil {
				return fail("process", "process-error", "fault-free ProcessBlock(%d) failed: %v", b.Num, err)
			}
			w.applyModel(b)
			rec.Step(fmt.Sprintf("B%d", len(b.Events)))
			rec.Stats.Inc("blocks")
			rec.Stats.Add("events", int64(len(b.Events)))
		case "reorg":
			bl := w.blocks()
			a := int(op.Arg(0))
			if a > len(bl) {
				a = len(bl)
			}
			var first uint64
			if a == 0 {
				first = w.lastBlock() + 1 + uint64(op.Arg(1))
			} else {
				first = bl[len(bl)-a].Num
				// a reorg point inside the gap below that block drops the same blocks
				prev := uint64(0)
				if len(bl)-a-1 >= 0 {
					prev = bl[len(bl)-a-1].Num
				}
				if off := uint64(op.Arg(1)); off < first && first-off > prev {
					first -= off
				}
			}
			// a third of the reorgs run while another query of the same store is in flight (an API request holding its
			// row cursor): the rewind then runs on another pooled connection
			var inflight *sql.Rows
			if uint64(op.Arg(0)+op.Arg(1))%3 == 0 {
				if rows, qerr := storeDB(w.store).Query("SELECT num FROM block ORDER BY num"); qerr == nil {
					rows.Next()
					inflight = rows
					rec.Stats.Inc("reorgs_with_a_reader_in_flight")
				}
			}
			err := w.store.Reorg(first)
			if inflight != nil {
				inflight.Close()
			}
			if err != nil {
				return fail("process", "reorg-error", "Reorg(%d) failed: %v", first, err)
			}
			dropped := w.rewindModel(first)
			rec.Step(fmt.Sprintf("R%d", dropped))
			rec.Stats.Inc("reorgs")
			if dropped > 0 {
				rec.Stats.Inc("reorgs_dropping_blocks")
				rec.Stats.Add("blocks_dropped", int64(dropped))
			} else {
				rec.Stats.Inc("reorgs_above_tip")
			}
			if len(w.blocks()) == 0 {
				rec.Stats.Inc("reorgs_to_empty")
			}
			if prop == "C04" {
				// a quarter of the reorgs are judged only later (at the next check, the next judged reorg or the end of
				// the run): whatever the node remembers from its last answers before the reorg is then still in place
				// when the new fork has grown back to the same height
				if uint64(op.Arg(0)+op.Arg(1))%4 == 1 {
					rec.Stats.Inc("reorgs_judged_only_later")
				} else if v := w.twinCheck(heavy); v != nil {
					return v
				}
			}
		case "restart":
			w.store.Close()
			if err := w.store.Open(); err != nil {
				return fail("harness", "reopen", "reopen: %v", err)
			}
			rec.Step("S")
			rec.Stats.Inc("restarts")
		case "check":
			if v := w.twinCheck(heavy); v != nil {
				return v
			}
			rec.Step("C")
		case "par":
			if w2 == nil {
				continue
			}
			// n blocks for each of the two stores, processed by two goroutines at the same time (as the node's
			// syncers do); every store is then checked against its own reference
			n := int(op.Arg(2))
			ra, rb := NewRand(uint64(op.Arg(0))), NewRand(uint64(op.Arg(1)))
			var la, lb []MBlock
			for i := 0; i < n; i++ {
				b := w.genBlock(ra.U64(), 0, false)
				w.applyModel(b)
				la = append(la, b)
				b2 := w2.genBlock(rb.U64(), 0, false)
				w2.applyModel(b2)
				lb = append(lb, b2)
			}
			var wg sync.WaitGroup
			var ea, eb error
			wg.Add(2)
			go func() {
				defer wg.Done()
				for _, b := range la {
					if ea = w.store.ProcessBlock(b); ea != nil {
						return
					}
				}
			}()
			go func() {
				defer wg.Done()
				for _, b := range lb {
					if eb = w2.store.ProcessBlock(b); eb != nil {
						return
					}
				}
			}()
			wg.Wait()
			if ea != nil || eb != nil {
				return fail("process", "process-error", "fault-free ProcessBlock failed while two stores were written at the same time: %v / %v", ea, eb)
			}
			if err := w2.checkRef(heavy); err != nil {
				return &Violation{Oracle: "reference", Sig: w2.kind + "/reference", Detail: "companion store after concurrent writes: " + err.Error()}
			}
			rec.Stats.Inc("concurrent_write_ops")
			rec.Step(fmt.Sprintf("P%d", n))
		case "faultblock":
			if v := w.faultBlock(op, fail); v != nil {
				if prop == "C08" && v.Oracle != "reference" {
					// atomicity / retry are C07's oracles: C08 only reports proofs, leaves and roots
					rec.Stats.Inc("other_property_oracle_fired_c07")
					return nil
				}
				return v
			}
		default:
			continue
		}
		if v := refCheck("after " + op.String()); v != nil {
			return v
		}
		rec.State(w.stateDigest())
	}
	if cfg["proofs_only"] == 0 {
		if v := w.twinCheck(heavy); v != nil {
			return v
		}
	}
	return refCheck("end of run")
}

// faultBlock processes the next block under injected storage faults.
func (w *storeWorld) faultBlock(op Op, fail func(string, string, string, ...any) *Violation) *Violation {
	rec := w.rec
	b := w.genBlock(uint64(op.Arg(0)), int(op.Arg(1)), false)
	mode, k, extra := int(op.Arg(2)), int(op.Arg(3)), int(op.Arg(4))
	path := w.store.Path()
	pre, err := rawDigest(w.store)
	if err != nil {
		return fail("harness", "digest", "digest: %v", err)
	}
	preLast, _ := w.store.LastProcessed()

	// attempt runs ProcessBlock under a plan and checks all-or-nothing.
	attempt := func(p *FaultPlan, what string) (fired bool, v *Violation) {
		ArmFault(path, p)
		err := w.store.ProcessBlock(b)
		DisarmFault(path)
		fired = p.Fired > 0 || p.CommitFail > 0 || p.BeginFail > 0
		if !fired {
			if err != nil {
				return false, fail("process", "process-error", "ProcessBlock(%d) failed without an injected fault (%s): %v", b.Num, what, err)
			}
			return false, nil
		}
		rec.Stats.Inc("fault_fired_" + what)
		if err == nil {
			return true, fail("atomicity", "fault-swallowed", "%s fired inside ProcessBlock(%d) but the call reported success", what, b.Num)
		}
		if errors.Is(err, aggsync.ErrInconsistentState) {
			rec.Stats.Inc("fault_reported_as_inconsistent_state")
		}
		post, derr := rawDigest(w.store)
		if derr != nil {
			return true, fail("harness", "digest", "digest: %v", derr)
		}
		if post != pre {
			return true, fail("atomicity", "partial-block", "after %s in ProcessBlock(%d) the stored tables differ from the pre-block state (partial block recorded)", what, b.Num)
		}
		if lp, _ := w.store.LastProcessed(); lp != preLast {
			return true, fail("atomicity", "last-processed-moved", "after %s last processed block moved %d -> %d", what, preLast, lp)
		}
		if w.store.IsHalted() {
			return true, fail("atomicity", "halted-by-fault", "a storage fault (%s) left the store halted", what)
		}
		return true, nil
	}
	clean := func() *Violation {
		if err := w.store.ProcessBlock(b); err != nil {
			return fail("retry", "retry-error", "clean retry of block %d failed: %v", b.Num, err)
		}
		return nil
	}

	switch mode {
	case 0, 1, 2, 5: // one or several faulty attempts, then a clean retry
		n := 1 + extra
		committed := false
		for i := 0; i < n && !committed; i++ {
			var p *FaultPlan
			what := ""
			switch mode {
			case 0:
				p, what = &FaultPlan{FailAt: k + i*7}, "stmt"
			case 1:
				p, what = &FaultPlan{FailCommit: true}, "commit"
			case 2:
				p, what = &FaultPlan{FailBegin: true}, "begin"
			case 5:
				p, what = &FaultPlan{DenyAllWrites: true}, "diskfull"
			}
			fired, v := attempt(p, what)
			if v != nil {
				return v
			}
			if !fired {
				committed = true
			}
		}
		if !committed {
			if v := clean(); v != nil {
				return v
			}
		}
		rec.Step(fmt.Sprintf("F%d.%d", mode, len(b.Events)))
	case 7, 8: // the caller's context is cancelled mid-block: before statement k (7) / while row change k is written (8)
		ctx, cancel := context.WithCancel(context.Background())
		watcherSeen := true
		p := &FaultPlan{Yield: func() {
			cancel()
			// which statement is the last one to succeed is decided here, not by the Go scheduler
			if !WaitTxAborted() {
				watcherSeen = false
			}
		}}
		what := "cancel_at_statement"
		if mode == 7 {
			p.YieldAt, p.YieldWritesOnly = k, true
		} else {
			p.RowYieldAt, what = 1+(k-1)%40, "cancel_at_row"
		}
		ArmFault(path, p)
		err := w.store.ProcessBlockCtx(ctx, b)
		DisarmFault(path)
		cancel()
		if !watcherSeen {
			return fail("harness", "cancel-watcher", "database/sql's cancellation watcher did not show up after the context was cancelled")
		}
		if p.Yields == 0 {
			if err != nil {
				return fail("process", "process-error", "ProcessBlock(%d) failed although its context was never cancelled: %v", b.Num, err)
			}
			break // the block has fewer statements / rows than k: processed normally
		}
		rec.Stats.Inc("fault_fired_" + what)
		if err == nil {
			// the cancellation came too late to stop the block: it must be there completely (checked against the
			// reference right after this op)
			rec.Stats.Inc("cancelled_block_committed")
			break
		}
		post, derr := rawDigest(w.store)
		if derr != nil {
			return fail("harness", "digest", "digest: %v", derr)
		}
		if post != pre {
			return fail("atomicity", "partial-block", "after a context cancellation in ProcessBlock(%d) the stored tables differ from the pre-block state", b.Num)
		}
		if lp, _ := w.store.LastProcessed(); lp != preLast {
			return fail("atomicity", "last-processed-moved", "after a context cancellation last processed block moved %d -> %d", preLast, lp)
		}
		if v := clean(); v != nil {
			return v
		}
		rec.Step(fmt.Sprintf("F%d.%d", mode, len(b.Events)))
	case 3: // crash image in the middle of the transaction
		img := filepath.Join(w.dir, "img")
		os.RemoveAll(img)
		p := &FaultPlan{SnapshotAt: k, SnapshotDir: img}
		ArmFault(path, p)
		err := w.store.ProcessBlock(b)
		DisarmFault(path)
		if err != nil {
			return fail("process", "process-error", "ProcessBlock(%d) failed while only observing: %v", b.Num, err)
		}
		if p.Snapshots > 0 {
			rec.Stats.Inc("crash_images_mid_tx")
			post, _ := rawDigest(w.store)
			var is Store
			ip := filepath.Join(img, filepath.Base(path))
			switch w.kind {
			case "bridge":
				is = NewBridgeStore(ip)
			case "l1info":
				is = NewL1Store(ip)
			default:
				is = NewGERStore(ip)
			}
			if err := is.Open(); err != nil {
				return fail("crash", "image-open", "store does not open on a mid-transaction crash image: %v", err)
			}
			got, _ := rawDigest(is)
			if got != pre {
				is.Close()
				return fail("crash", "partial-block-after-crash", "crash at statement %d of block %d: after restart the stored tables are not the pre-block state", k, b.Num)
			}
			if err := is.ProcessBlock(b); err != nil {
				is.Close()
				return fail("crash", "retry-after-crash", "after a mid-block crash, reprocessing block %d fails: %v", b.Num, err)
			}
			got2, _ := rawDigest(is)
			is.Close()
			os.RemoveAll(img)
			if got2 != post {
				return fail("crash", "state-after-crash-retry", "after a mid-block crash and reprocessing, tables differ from a run without the crash")
			}
		}
		rec.Step(fmt.Sprintf("X%d", len(b.Events)))
	case 4, 6: // enumerate every statement position of this block's transaction
		if mode == 6 && blockHasRemoval(b) {
			// mode 6 rewinds with Reorg between positions; a removal event deletes rows of
			// earlier blocks which a reorg does not bring back (recorded finding of C04),
			// so the rewind would not restore the pre-block state. Enumerate cumulatively.
			mode = 4
		}
		cnt := &FaultPlan{FailCommit: true}
		fired, v := attempt(cnt, "commit")
		if v != nil {
			return v
		}
		if !fired {
			return fail("harness", "commit-hook", "commit hook did not fire")
		}
		S := cnt.Count
		rec.Stats.Add("enum_positions", int64(S))
		rec.Stats.Inc("enum_blocks")
		for pos := 1; pos <= S; pos++ {
			fired, v := attempt(&FaultPlan{FailAt: pos}, "stmt")
			if v != nil {
				return v
			}
			if !fired {
				// the statement count can shrink when an earlier failure changed what the
				// block needs (e.g. cache rebuild); the block is committed now.
				rec.Stats.Inc("enum_short")
				w.applyModel(b)
				if err := w.checkRef(false); err != nil {
					return fail("reference", "reference", "after enumerated faults: %v", err)
				}
				if mode == 4 || pos == S {
					rec.Step(fmt.Sprintf("E%d.%d", mode, S))
					return nil
				}
				if err := w.store.Reorg(b.Num); err != nil {
					return fail("process", "reorg-error", "Reorg(%d): %v", b.Num, err)
				}
				w.rewindModel(b.Num)
				continue
			}
			if mode == 6 {
				// per-position: fail at pos, retry clean, compare with the reference, rewind, next position
				if v := clean(); v != nil {
					return v
				}
				w.applyModel(b)
				if err := w.checkRef(false); err != nil {
					return fail("reference", "reference", "block %d: fault at statement %d/%d, then clean retry: %v", b.Num, pos, S, err)
				}
				if pos == S {
					rec.Step(fmt.Sprintf("E6.%d", S))
					return nil
				}
				if err := w.store.Reorg(b.Num); err != nil {
					return fail("process", "reorg-error", "Reorg(%d): %v", b.Num, err)
				}
				w.rewindModel(b.Num)
			}
		}
		if v := clean(); v != nil {
			return v
		}
		rec.Step(fmt.Sprintf("E%d.%d", mode, S))
	}
	w.applyModel(b)
	rec.Stats.Inc("blocks")
	rec.Stats.Inc("fault_blocks")
	return nil
}

func blockHasRemoval(b MBlock) bool {
	for _, e := range b.Events {
		switch ev := e.(type) {
		case bridgesync.Event:
			if ev.RemoveLegacyToken != nil {
				return true
			}
		case *lastgersync.Event:
			if ev.GEREvent != nil && ev.GEREvent.IsRemove {
				return true
			}
		}
	}
	return false
}

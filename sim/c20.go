package sim

// C20: claim details are taken only from the matching, non-reverted bridge call.
// Engine: syncsim. The real L2 bridge syncer with full claims (bridgesync.NewL2:
// appenders, trace extraction, processor + SQLite, downloader, driver) against a
// fake chain that serves generated call trees for debug_traceTransaction.

import (
	"context"
	"fmt"
	"math/big"
	"os"
	"path/filepath"
	"time"

	"github.com/agglayer/aggkit/bridgesync"
	cfgtypes "github.com/agglayer/aggkit/config/types"
	"github.com/agglayer/aggkit/reorgdetector"
	aggkittypes "github.com/agglayer/aggkit/types"
	"github.com/ethereum/go-ethereum/common"
)

func C20Config(prop string, r *Rand, tier string) map[string]int64 {
	c := map[string]int64{}
	c["chunk"] = int64([]int{1, 2, 5, 20}[r.Intn(4)])
	c["wait_ms"] = 500
	c["retry_ms"] = int64([]int{50, 500}[r.Intn(2)])
	c["ops"] = int64(r.Range(25, 110))
	if tier == "thorough" {
		c["ops"] = int64(r.Range(30, 220))
	}
	c["max_depth"] = int64(r.Range(1, 4))
	c["max_fan"] = int64(r.Range(1, 3))
	c["p_no_valid"] = int64([]int{0, 0, 5, 15}[r.Intn(4)]) // % of claims whose tx holds no valid matching call
	c["p_revert"] = int64(r.Range(10, 40))
	c["w_mine"] = int64(r.Range(8, 20))
	c["w_rel"] = 55
	c["w_time"] = int64(r.Range(8, 20))
	c["w_fault"] = int64(r.Range(0, 8))
	// reorgs that include a dropped claim transaction again (same hash, same event) with a different execution
	c["w_fork"] = int64([]int{0, 0, 2, 5}[r.Intn(4)])
	return c
}

type c20Claim struct {
	Event      bridgesync.Claim // fields taken from the log
	Acceptable []*ClaimCallSpec // calls the details may be taken from (empty: nothing may be recorded)
	TxHash     common.Hash
	Etrog      bool
}

type c20Block struct {
	Claims []c20Claim
}

// genClaimTx builds the call tree of one claim transaction.
func genClaimTx(r *Rand, cfg map[string]int64, etrog bool, gi *big.Int, withValid bool) (*TraceCall, []*ClaimCallSpec) {
	var acceptable []*ClaimCallSpec
	pRev := int(cfg["p_revert"])
	otherGI := func() *big.Int {
		for {
			g := bridgesync.GenerateGlobalIndex(r.Bool(50) && etrog, uint32(r.Intn(3)), uint32(r.Intn(50)))
			if !etrog {
				g = big.NewInt(int64(r.Intn(50)))
			}
			if g.Cmp(gi) != 0 {
				return g
			}
		}
	}
	bridgeCall := func(spec *ClaimCallSpec, reverted bool) TraceCall {
		c := TraceCall{From: spec.Sender, To: addrBridge, Input: spec.Calldata()}
		if reverted {
			c.Err = strp("execution reverted")
		}
		return c
	}
	placedValid := false
	var build func(depth int, underRevert bool) TraceCall
	build = func(depth int, underRevert bool) TraceCall {
		c := TraceCall{From: common.BytesToAddress(r.Bytes(20)), To: common.BytesToAddress(append([]byte{0xcc}, r.Bytes(19)...)), Input: r.Bytes(4 + r.Intn(20))}
		if r.Bool(pRev) && depth > 0 {
			c.Err = strp("execution reverted")
			underRevert = true
		}
		n := r.Range(0, int(cfg["max_fan"]))
		if depth >= int(cfg["max_depth"]) {
			n = 0
		}
		for i := 0; i < n+1; i++ {
			switch k := r.Intn(10); {
			case k < 3: // decoy: other global index, maybe reverted
				if r.Bool(35) {
					// look-alike decoys: a call whose global index shares its low bits with the event's - the other
					// contract generation carrying only the 32-bit leaf index, or the same leaf index under the other
					// mainnet flag / another rollup index
					leaf := uint32(new(big.Int).And(gi, big.NewInt(0xFFFFFFFF)).Uint64())
					var spec *ClaimCallSpec
					switch {
					case etrog && r.Bool(50):
						spec = genClaimCall(r, false, big.NewInt(int64(leaf)))
					case etrog:
						g := bridgesync.GenerateGlobalIndex(gi.Bit(64) == 0, uint32(1+r.Intn(3)), leaf)
						if g.Cmp(gi) != 0 {
							spec = genClaimCall(r, true, g)
						}
					default:
						g := bridgesync.GenerateGlobalIndex(r.Bool(50), uint32(1+r.Intn(3)), leaf)
						if g.Cmp(gi) != 0 {
							spec = genClaimCall(r, true, g)
						}
					}
					if spec != nil && spec.GlobalIdx.Cmp(gi) != 0 {
						c.Calls = append(c.Calls, bridgeCall(spec, r.Bool(pRev)))
						break
					}
				}
				c.Calls = append(c.Calls, bridgeCall(genClaimCall(r, etrog, otherGI()), r.Bool(pRev)))
			case k < 5: // same global index but reverted itself: must be ignored
				c.Calls = append(c.Calls, bridgeCall(genClaimCall(r, etrog, gi), true))
			case k < 6 && withValid && (!placedValid || r.Bool(10)): // the (or, rarely, a second) matching call
				spec := genClaimCall(r, etrog, gi)
				c.Calls = append(c.Calls, bridgeCall(spec, false))
				if !underRevert {
					acceptable = append(acceptable, spec)
					placedValid = true
				}
			default:
				if depth < int(cfg["max_depth"]) {
					c.Calls = append(c.Calls, build(depth+1, underRevert))
				}
			}
		}
		return c
	}
	root := build(0, false)
	if withValid && !placedValid {
		// make sure one valid call exists: put it at the end of the root frame (or make the root the claim call)
		spec := genClaimCall(r, etrog, gi)
		if r.Bool(25) && len(root.Calls) == 0 {
			root = bridgeCall(spec, false)
		} else {
			root.Calls = append(root.Calls, bridgeCall(spec, false))
		}
		acceptable = append(acceptable, spec)
	}
	return &root, acceptable
}

func RunC20(prop string, tr *Trace, sc *Script, rec *Recorder, scratch string) (viol *Violation) {
	InstallSQLiteHooks()
	perr := InBubble(workerT, func() {
		defer func() {
			if r := recover(); r != nil {
				viol = &Violation{Oracle: "harness", Detail: fmt.Sprintf("scheduler panic: %v", r)}
			}
		}()
		viol = runC20(tr, sc, rec, scratch)
	})
	if perr != nil && viol == nil {
		viol = &Violation{Oracle: "harness", Detail: fmt.Sprintf("bubble panic: %v", perr)}
	}
	return viol
}

func runC20(tr *Trace, sc *Script, rec *Recorder, scratch string) *Violation {
	cfg := tr.Cfg
	dir := filepath.Join(scratch, fmt.Sprintf("c20-%d-%d", tr.Seed, tr.Run))
	os.RemoveAll(dir)
	os.MkdirAll(dir, 0o755)
	defer os.RemoveAll(dir)
	w := NewWorld(rec)
	chain := NewChain(2442, tr.Seed)
	chain.CallFn = bridgeCallFn(func(at *FBlock) uint32 { return 0 })
	ctx, cancel := context.WithCancel(context.Background())
	rd, err := reorgdetector.New(&FakeClient{W: w, C: chain, Label: "rd", Epoch: w.Epoch}, reorgdetector.Config{DBPath: filepath.Join(dir, "rd.sqlite"),
		CheckReorgsInterval: cfgtypes.NewDuration(10 * time.Second), FinalizedBlock: aggkittypes.FinalizedBlock}, reorgdetector.L2)
	if err != nil {
		cancel()
		return &Violation{Oracle: "harness", Detail: err.Error()}
	}
	if err := rd.Start(ctx); err != nil {
		cancel()
		return &Violation{Oracle: "harness", Detail: err.Error()}
	}
	syncer, err := bridgesync.NewL2(ctx, filepath.Join(dir, "bridge.sqlite"), addrBridge, uint64(cfg["chunk"]), aggkittypes.LatestBlock, rd,
		&FakeClient{W: w, C: chain, Label: "dl", Epoch: w.Epoch}, 0, time.Duration(cfg["wait_ms"])*time.Millisecond,
		time.Duration(cfg["retry_ms"])*time.Millisecond, -1, 1, true, true)
	if err != nil {
		cancel()
		return &Violation{Oracle: "harness", Detail: "bridgesync.NewL2: " + err.Error()}
	}
	vp := bridgesync.VerifProcessorOf(syncer)
	defer func() {
		w.Kill()
		cancel()
		w.Quiesce()
		closePrivateDB(rd, "db")
		vp.DB().Close()
	}()
	w.EndSetup()
	go syncer.Start(ctx)
	w.Quiesce()

	firstBad := uint64(0)
	forks := 0
	var carry []c20Claim // claims of dropped blocks that the new fork includes again
	fill := func(r *Rand) func(b *FBlock) {
		return func(b *FBlock) {
			cb := c20Block{}
			n := 0
			if r.Bool(60) {
				n = r.Range(1, 2)
			}
			again := carry
			carry = nil
			n += len(again)
			for i := 0; i < n; i++ {
				etrog := r.Bool(75)
				var gi *big.Int
				if etrog {
					gi = bridgesync.GenerateGlobalIndex(r.Bool(50), uint32(r.Intn(3)), uint32(r.Intn(50)))
				} else {
					gi = big.NewInt(int64(r.Intn(50)))
				}
				withValid := !r.Bool(int(cfg["p_no_valid"]))
				txh := genHash(r)
				ev := bridgesync.Claim{BlockNum: b.Num(), BlockPos: uint64(len(b.Logs)), GlobalIndex: gi, OriginNetwork: genNet(r), OriginAddress: genAddr(r),
					DestinationAddress: genAddr(r), Amount: genAmount(r)}
				if i < len(again) {
					// the same transaction (hash, event) executed again in the new fork: its calls may differ (another
					// route succeeds, the formerly successful one reverts)
					o := again[i]
					etrog, gi, txh, withValid = o.Etrog, o.Event.GlobalIndex, o.TxHash, true
					ev.GlobalIndex, ev.OriginNetwork, ev.OriginAddress, ev.DestinationAddress, ev.Amount = gi, o.Event.OriginNetwork, o.Event.OriginAddress, o.Event.DestinationAddress, o.Event.Amount
					rec.Stats.Inc("claim_txs_included_again_after_reorg")
				}
				tree, acceptable := genClaimTx(r, cfg, etrog, gi, withValid)
				b.Traces[txh] = tree
				if etrog {
					ev.BlockTimestamp, ev.TxHash = b.Header.Time, txh
					b.Logs = append(b.Logs, withTx(packLog(bridgeV2ABI, addrBridge, "ClaimEvent", gi, ev.OriginNetwork, ev.OriginAddress, ev.DestinationAddress, ev.Amount), txh))
				} else {
					b.Logs = append(b.Logs, withTx(packLog(bridgeV1ABI, addrBridge, "ClaimEvent", uint32(gi.Uint64()), ev.OriginNetwork, ev.OriginAddress, ev.DestinationAddress, ev.Amount), txh))
				}
				cb.Claims = append(cb.Claims, c20Claim{Event: ev, Acceptable: acceptable, TxHash: txh, Etrog: etrog})
				rec.Stats.Inc("claims_generated")
				if len(acceptable) == 0 {
					rec.Stats.Inc("claims_without_valid_call")
					if firstBad == 0 {
						firstBad = b.Num()
					}
				}
				if len(acceptable) > 1 {
					rec.Stats.Inc("claims_with_two_valid_calls")
				}
			}
			b.Payload = cb
		}
	}

	// oracle over the stored claims
	check := func(ctx string, final bool) *Violation {
		lp, err := syncer.GetLastProcessedBlock(bg)
		if err != nil {
			return &Violation{Oracle: "harness", Detail: err.Error()}
		}
		// after a reorg the store may still hold blocks of the dropped fork (bringing it in line is C06's business):
		// claims are judged for the blocks stored with their canonical hash, up to the first one that is not
		storedHash := map[uint64]common.Hash{}
		if forks > 0 {
			rows, err := vp.DB().Query("SELECT num, hash FROM block")
			if err != nil {
				return &Violation{Oracle: "harness", Detail: "block table: " + err.Error()}
			}
			for rows.Next() {
				var n uint64
				var h *string
				if rows.Scan(&n, &h) == nil && h != nil {
					storedHash[n] = common.HexToHash(*h)
				}
			}
			rows.Close()
		}
		isStale := func(n uint64) bool {
			h, ok := storedHash[n]
			return ok && (n > chain.HeadNum() || h != chain.Canon[n].Hash)
		}
		// blocks without watched events have no row: below a row of the dropped fork, only what lies at or below the
		// last row that carries its canonical hash is known to be of the canonical chain
		staleFrom, judged := uint64(0), lp
		for n := uint64(1); n <= lp; n++ {
			if isStale(n) {
				staleFrom = n
				break
			}
			if _, ok := storedHash[n]; ok {
				judged = n
			}
		}
		if staleFrom == 0 {
			judged = lp
		} else if judged >= staleFrom {
			judged = 0
		}
		if firstBad != 0 && lp >= firstBad && firstBad <= judged {
			return &Violation{Oracle: "advanced-past-bad-claim", Sig: "c20/advanced-past-unmatched-claim", Detail: fmt.Sprintf("%s: last processed block is %d but block %d holds a claim whose transaction has no non-reverted bridge call with the event's global index", ctx, lp, firstBad)}
		}
		stored, err := syncer.GetClaims(bg, 0, lp)
		if err != nil {
			return &Violation{Oracle: "harness", Detail: "GetClaims: " + err.Error()}
		}
		si := 0
		for n := uint64(1); n <= lp && n <= chain.HeadNum(); n++ {
			if n > judged {
				rec.Stats.Inc("checks_with_blocks_of_a_dropped_fork_still_stored")
				return nil
			}
			cb, _ := chain.Canon[n].Payload.(c20Block)
			for _, want := range cb.Claims {
				if si >= len(stored) {
					return &Violation{Oracle: "missing-claim", Sig: "c20/missing-claim", Detail: fmt.Sprintf("%s: block %d was processed but its claim (global index %s) is not stored", ctx, n, want.Event.GlobalIndex)}
				}
				got := stored[si]
				si++
				rec.Stats.Inc("claims_checked")
				ok := false
				var firstDiff string
				for _, spec := range want.Acceptable {
					exp := expectedClaim(&want.Event, spec)
					if js(normClaim(got)) == js(normClaim(exp)) {
						ok = true
						break
					}
					if firstDiff == "" {
						firstDiff = fmt.Sprintf("stored %s\n expected %s", js(got), js(exp))
					}
				}
				if !ok {
					sig := "c20/wrong-claim-details"
					if len(want.Acceptable) == 0 {
						sig = "c20/recorded-without-valid-call"
					}
					return &Violation{Oracle: "claim-details", Sig: sig, Detail: fmt.Sprintf("%s: claim in block %d (global index %s): the stored details are not those of any non-reverted bridge call with that global index (%d acceptable calls)\n %.1500s", ctx, n, want.Event.GlobalIndex, len(want.Acceptable), firstDiff)}
				}
			}
		}
		if si != len(stored) && staleFrom == 0 {
			return &Violation{Oracle: "extra-claim", Sig: "c20/extra-claim", Detail: fmt.Sprintf("%s: %d claims stored, %d expected up to block %d", ctx, len(stored), si, lp)}
		}
		return nil
	}

	gen := func(r *Rand) (Op, bool) {
		labels := w.ParkedLabels()
		wts := []int{int(cfg["w_mine"]), int(cfg["w_rel"]), int(cfg["w_time"]), int(cfg["w_fault"]), int(cfg["w_fork"])}
		if len(labels) == 0 {
			wts[1], wts[3] = 0, 0
			wts[2] += 30
		}
		if chain.HeadNum() < 2 {
			wts[4] = 0
		}
		switch r.Pick(wts) {
		case 4:
			return Op{K: "fork", A: []int64{int64(r.U64() >> 1), int64(r.Range(1, 2)), int64(r.Range(1, 3)), int64(r.Range(30, 100))}}, true
		case 0:
			return Op{K: "mine", A: []int64{int64(r.U64() >> 1), int64(r.Range(1, 3))}}, true
		case 1:
			return Op{K: "rel", S: labels[r.Intn(len(labels))], A: []int64{0}}, true
		case 2:
			return Op{K: "time", A: []int64{[]int64{cfg["wait_ms"], cfg["retry_ms"], 3000}[r.Intn(3)]}}, true
		default:
			return Op{K: "rel", S: labels[r.Intn(len(labels))], A: []int64{1}}, true
		}
	}
	for {
		op, ok := sc.Next(gen)
		if !ok {
			break
		}
		rec.Stats.Inc("steps")
		switch op.K {
		case "mine":
			r := NewRand(uint64(op.Arg(0)))
			for i := int64(0); i < op.Arg(1); i++ {
				chain.Mine(r.U64(), fill(r))
			}
			rec.Step(fmt.Sprintf("M%d", op.Arg(1)))
		case "fork":
			d := uint64(op.Arg(1))
			if d >= chain.HeadNum() {
				continue
			}
			r := NewRand(uint64(op.Arg(0)))
			dropped := chain.Rewind(chain.HeadNum() - d)
			carry = nil
			for _, ob := range dropped {
				if cb, ok := ob.Payload.(c20Block); ok {
					for _, cl := range cb.Claims {
						if r.Bool(int(op.Arg(3))) {
							carry = append(carry, cl)
						}
					}
				}
			}
			for i := int64(0); i < op.Arg(2); i++ {
				chain.Mine(r.U64(), fill(r))
			}
			carry = nil
			forks++
			// the first canonical block whose claim has no valid call
			firstBad = 0
			for n := uint64(1); n <= chain.HeadNum() && firstBad == 0; n++ {
				if cb, ok := chain.Canon[n].Payload.(c20Block); ok {
					for _, cl := range cb.Claims {
						if len(cl.Acceptable) == 0 {
							firstBad = n
						}
					}
				}
			}
			rec.Stats.Inc("forks")
			rec.Step(fmt.Sprintf("K%d.%d", d, op.Arg(2)))
		case "rel":
			p := w.FirstParked(op.S)
			if p == nil {
				continue
			}
			if op.Arg(0) != 0 {
				rec.Stats.Inc("rpc_fault_1_" + p.method)
			}
			rec.Step("r" + p.label + p.method[:2] + fmt.Sprint(op.Arg(0)))
			w.Release(p, int(op.Arg(0)))
		case "time":
			w.Advance(time.Duration(op.Arg(0)) * time.Millisecond)
			rec.Step("T")
		}
		if v := check("after "+op.String(), false); v != nil {
			return v
		}
		lp, _ := syncer.GetLastProcessedBlock(bg)
		rec.Event("after %s: parked=[%s] head=%d lp=%d bad=%d", op, w.ParkedDigest(), chain.HeadNum(), lp, firstBad)
		rec.State(fmt.Sprintf("%d:%d:%s", int64(chain.HeadNum())-int64(lp), len(w.Parked()), w.ParkedDigest()))
	}
	// drain
	lastEvent := uint64(0)
	for n := uint64(1); n <= chain.HeadNum(); n++ {
		if cb, ok := chain.Canon[n].Payload.(c20Block); ok && len(cb.Claims) > 0 {
			lastEvent = n
		}
	}
	cap := 300 + 80*int(chain.HeadNum())
	for i := 0; i < cap; i++ {
		lp, _ := syncer.GetLastProcessedBlock(bg)
		if firstBad == 0 && lp >= lastEvent && forks == 0 {
			break
		}
		if (firstBad != 0 || forks > 0) && i > 160 {
			break
		}
		ps := w.Parked()
		if len(ps) > 0 {
			w.Release(ps[0], replyOK)
		} else {
			w.Advance(time.Duration(cfg["retry_ms"]) * time.Millisecond)
		}
		rec.Stats.Inc("drain_steps")
	}
	if v := check("after drain", true); v != nil {
		return v
	}
	lp, _ := syncer.GetLastProcessedBlock(bg)
	if forks > 0 {
		// whether the node gets back in line after a reorg is C06's property: not judged here
		rec.Stats.Inc("runs_with_reorgs")
	} else if firstBad == 0 && lp < lastEvent {
		return &Violation{Oracle: "liveness", Sig: "c20/not-synced", Detail: fmt.Sprintf("all claims have a valid call but after %d fair steps the syncer only reached block %d of %d", cap, lp, lastEvent)}
	}
	if firstBad != 0 {
		rec.Stats.Inc("runs_stuck_at_unmatched_claim")
	}
	return nil
}

func init() {
	register(&PropSpec{ID: "C20", Engine: "syncsim", Config: C20Config, Run: RunC20,
		OpLimit:    func(cfg map[string]int64) int { return int(cfg["ops"]) },
		Nontrivial: func(s Stats) bool { return s["claims_checked"] >= 2 }})
}

func normClaim(c bridgesync.Claim) bridgesync.Claim {
	if len(c.Metadata) == 0 {
		c.Metadata = nil
	}
	if c.Amount == nil {
		c.Amount = big.NewInt(0)
	}
	return c
}

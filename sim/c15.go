package sim

// C15: the GER oracle injects only finalized, current, not-yet-present roots.
// Engine: syncsim. Real AggOracle.Start on the fake clock, the real L1 info
// store fed at a scheduler-chosen pace, fake L1 headers, a ChainSender model.

import (
	"context"
	"errors"
	"fmt"
	"os"
	"path/filepath"
	"sync"
	"time"

	"github.com/agglayer/aggkit/aggoracle"
	"github.com/agglayer/aggkit/log"
	"github.com/ethereum/go-ethereum/common"
)

func C15Config(prop string, r *Rand, tier string) map[string]int64 {
	c := map[string]int64{}
	c["tag"] = int64(r.Intn(3))
	c["tick_ms"] = int64([]int{500, 1000, 5000}[r.Intn(3)])
	c["density"] = int64(r.Range(20, 80))
	c["ops"] = int64(r.Range(30, 140))
	if tier == "thorough" {
		c["ops"] = int64(r.Range(40, 300))
	}
	c["w_mine"] = int64(r.Range(8, 22))
	c["w_fin"] = int64(r.Range(5, 18))
	c["w_sync"] = int64(r.Range(4, 22))
	c["w_rel"] = 45
	c["w_time"] = int64(r.Range(10, 28))
	c["w_fault"] = int64(r.Range(0, 8))
	if r.Bool(15) {
		c["w_fault"] = 0
	}
	return c
}

// gerSender is the aggoracle.ChainSender model: a set of injected GERs; both calls park.
type gerSender struct {
	w        *World
	epoch    int
	mu       sync.Mutex
	injected map[common.Hash]bool
	order    []common.Hash
	onInject func(g common.Hash, already bool)
}

func (s *gerSender) IsGERInjected(ger common.Hash) (bool, error) {
	switch s.w.park(context.Background(), "cs", "IsGERInjected", ger.Hex()[:10], s.epoch) {
	case replyDead:
		return false, errWorldDead
	case replyTransient, replyNotFound:
		return false, errInjectedRPC
	case replyDeadline:
		return false, errInjectedTimeout
	}
	s.mu.Lock()
	defer s.mu.Unlock()
	return s.injected[ger], nil
}

func (s *gerSender) InjectGER(ctx context.Context, ger common.Hash) error {
	switch s.w.park(ctx, "cs", "InjectGER", ger.Hex()[:10], s.epoch) {
	case replyDead:
		return errWorldDead
	case replyTransient, replyNotFound:
		return errInjectedRPC
	case replyDeadline:
		return errInjectedTimeout
	}
	s.mu.Lock()
	already := s.injected[ger]
	s.injected[ger] = true
	s.order = append(s.order, ger)
	s.mu.Unlock()
	if s.onInject != nil {
		s.onInject(ger, already)
	}
	return nil
}

func RunC15(prop string, tr *Trace, sc *Script, rec *Recorder, scratch string) (viol *Violation) {
	InstallSQLiteHooks()
	perr := InBubble(workerT, func() {
		defer func() {
			if r := recover(); r != nil {
				viol = &Violation{Oracle: "harness", Detail: fmt.Sprintf("scheduler panic: %v", r)}
			}
		}()
		viol = runC15(tr, sc, rec, scratch)
	})
	if perr != nil && viol == nil {
		viol = &Violation{Oracle: "harness", Detail: fmt.Sprintf("bubble panic: %v", perr)}
	}
	return viol
}

func runC15(tr *Trace, sc *Script, rec *Recorder, scratch string) *Violation {
	cfg := tr.Cfg
	dir := filepath.Join(scratch, fmt.Sprintf("c15-%d-%d", tr.Seed, tr.Run))
	os.RemoveAll(dir)
	os.MkdirAll(dir, 0o755)
	defer os.RemoveAll(dir)
	w := NewWorld(rec)
	chain := NewChain(1, tr.Seed)
	gen1 := NewL1Gen()
	tag := finalityTags[cfg["tag"]%3]
	store := NewL1Store(filepath.Join(dir, "l1info.sqlite"))
	if err := store.Open(); err != nil {
		return &Violation{Oracle: "harness", Detail: err.Error()}
	}
	defer store.Close()
	synced := uint64(0) // last L1 block handed to the store

	// lastLeafGER: GER of the last L1 info leaf at or below block f on the canonical chain
	lastLeafGER := func(f uint64) (common.Hash, bool) {
		var g common.Hash
		ok := false
		for _, l := range gen1.Model.Leaves {
			if l.Block <= f {
				g, ok = l.GER, true
			}
		}
		return g, ok
	}

	var viol *Violation
	var sampled []uint64 // finality samples of the current tick (since the last HeaderByNumber answer)
	sender := &gerSender{w: w, epoch: w.Epoch, injected: map[common.Hash]bool{}}
	w.OnRPC = func(label, method, desc string, mode int, result any) {
		if label == "or" && method == "HeaderByNumber" {
			if b, ok := result.(*FBlock); ok && mode == replyOK {
				sampled = []uint64{b.Num()}
				rec.Stats.Inc("finality_samples")
			}
		}
	}
	sender.onInject = func(g common.Hash, already bool) {
		rec.Stats.Inc("injections")
		if viol != nil {
			return
		}
		if already {
			viol = &Violation{Oracle: "duplicate", Sig: "c15/duplicate-injection", Detail: fmt.Sprintf("InjectGER(%s) although the L2 contract already has that root", g.Hex()[:12])}
			return
		}
		if len(sampled) == 0 {
			viol = &Violation{Oracle: "unsampled", Sig: "c15/no-finality-sample", Detail: fmt.Sprintf("InjectGER(%s) without having sampled an L1 block of the configured finality in this tick", g.Hex()[:12])}
			return
		}
		f := sampled[len(sampled)-1]
		want, ok := lastLeafGER(f)
		if !ok || want != g {
			isLeaf := false
			var at uint64
			for _, l := range gen1.Model.Leaves {
				if l.GER == g {
					isLeaf, at = true, l.Block
				}
			}
			sig := "c15/not-most-recent-finalized-root"
			if isLeaf && at > f {
				sig = "c15/root-above-finality-sample"
			} else if !isLeaf {
				sig = "c15/unknown-root"
			}
			viol = &Violation{Oracle: "wrong-root", Sig: sig, Detail: fmt.Sprintf("InjectGER(%s): the block sampled with finality %s in this tick was %d; the most recent L1 info root at or below it is %s (exists=%v); injected root is a leaf=%v at block %d", g.Hex()[:12], tag.String(), f, want.Hex()[:12], ok, isLeaf, at)}
		}
	}

	ctx, cancel := context.WithCancel(context.Background())
	defer func() {
		w.Kill()
		cancel()
		w.Quiesce()
	}()
	or, err := aggoracle.New(log.WithFields("module", "c15"), sender, &FakeClient{W: w, C: chain, Label: "or", Epoch: w.Epoch}, store.F, tag, time.Duration(cfg["tick_ms"])*time.Millisecond)
	if err != nil {
		return &Violation{Oracle: "harness", Detail: err.Error()}
	}
	w.EndSetup()
	go or.Start(ctx)
	w.Quiesce()

	density := int(cfg["density"])
	gen := func(r *Rand) (Op, bool) {
		labels := w.ParkedLabels()
		wts := []int{int(cfg["w_mine"]), int(cfg["w_fin"]), int(cfg["w_sync"]), int(cfg["w_rel"]), int(cfg["w_time"]), int(cfg["w_fault"])}
		if len(labels) == 0 {
			wts[3], wts[5] = 0, 0
			wts[4] += 30
		}
		if synced >= chain.HeadNum() {
			wts[2] = 0
		}
		switch r.Pick(wts) {
		case 0:
			n := 1
			if r.Bool(35) {
				n = r.Range(2, 6)
			}
			return Op{K: "mine", A: []int64{int64(r.U64() >> 1), int64(n)}}, true
		case 1:
			return Op{K: "fin", A: []int64{int64(r.Range(0, 5)), int64(r.Range(0, 3))}}, true
		case 2:
			return Op{K: "sync", A: []int64{int64(r.Range(1, 8))}}, true
		case 3:
			return Op{K: "rel", S: labels[r.Intn(len(labels))], A: []int64{0}}, true
		case 4:
			ms := []int64{cfg["tick_ms"], cfg["tick_ms"], 100, 20000}[r.Intn(4)]
			return Op{K: "time", A: []int64{ms}}, true
		default:
			fm := int64(1)
			if r.Bool(30) {
				fm = replyDeadline // a request that times out although the oracle's own context is alive
			}
			return Op{K: "rel", S: labels[r.Intn(len(labels))], A: []int64{fm}}, true
		}
	}
	syncTo := func(to uint64) *Violation {
		for synced < to && synced < chain.HeadNum() {
			b := chain.Canon[synced+1]
			mb, _ := b.Payload.(MBlock)
			mb.Num, mb.Hash = b.Num(), b.Hash
			if err := store.ProcessBlock(mb); err != nil {
				return &Violation{Oracle: "harness", Detail: fmt.Sprintf("store.ProcessBlock(%d): %v", b.Num(), err)}
			}
			synced++
		}
		return nil
	}
	for {
		op, ok := sc.Next(gen)
		if !ok {
			break
		}
		rec.Stats.Inc("steps")
		switch op.K {
		case "mine":
			r := NewRand(uint64(op.Arg(0)))
			for i := int64(0); i < op.Arg(1); i++ {
				chain.Mine(r.U64(), gen1.Fill(r, density))
			}
			rec.Step(fmt.Sprintf("M%d", op.Arg(1)))
		case "fin":
			chain.Finalized = min(chain.Finalized+uint64(op.Arg(0)), chain.HeadNum())
			chain.Safe = min(max(chain.Safe, chain.Finalized)+uint64(op.Arg(1)), chain.HeadNum())
			rec.Step("F")
		case "sync":
			if v := syncTo(synced + uint64(op.Arg(0))); v != nil {
				return v
			}
			if synced < tagValue(chain, tag) {
				rec.Stats.Inc("syncer_behind_finality")
			} else {
				rec.Stats.Inc("syncer_at_or_ahead_of_finality")
			}
			rec.Step("S")
		case "rel":
			p := w.FirstParked(op.S)
			if p == nil {
				continue
			}
			if op.Arg(0) != 0 {
				rec.Stats.Inc(fmt.Sprintf("rpc_fault_%d_%s", op.Arg(0), p.method))
			}
			rec.Step("r" + p.label + p.method[:2] + fmt.Sprint(op.Arg(0)))
			w.Release(p, int(op.Arg(0)))
		case "time":
			w.Advance(time.Duration(op.Arg(0)) * time.Millisecond)
			rec.Step("T")
		}
		if viol != nil {
			return viol
		}
		rec.Event("after %s: parked=[%s] head=%d fin=%d safe=%d synced=%d injected=%d", op, w.ParkedDigest(), chain.HeadNum(), chain.Finalized, chain.Safe, synced, len(sender.order))
		rec.State(fmt.Sprintf("%d:%d:%d:%s", int64(tagValue(chain, tag))-int64(synced), len(sender.order), len(w.Parked()), w.ParkedDigest()))
	}
	// drain: the syncer catches up, faults stop; the newest finalized root must get injected within K ticks
	if v := syncTo(chain.HeadNum()); v != nil {
		return v
	}
	target, exists := lastLeafGER(tagValue(chain, tag))
	done := func() bool {
		sender.mu.Lock()
		defer sender.mu.Unlock()
		return !exists || sender.injected[target]
	}
	const K = 6
	for i := 0; i < K*8 && !done(); i++ {
		ps := w.Parked()
		if len(ps) > 0 {
			w.Release(ps[0], replyOK)
		} else {
			w.Advance(time.Duration(cfg["tick_ms"]) * time.Millisecond)
		}
		rec.Stats.Inc("drain_steps")
		if viol != nil {
			return viol
		}
	}
	if !done() {
		return &Violation{Oracle: "liveness", Sig: "c15/newest-finalized-root-not-injected", Detail: fmt.Sprintf("the syncer has caught up and faults stopped, but after %d oracle ticks the most recent root at or below the %s block %d (%s) was not injected", K, tag.String(), tagValue(chain, tag), target.Hex()[:12])}
	}
	if exists {
		rec.Stats.Inc("runs_with_final_root_injected")
	}
	_ = errors.New
	return nil
}

func init() {
	register(&PropSpec{ID: "C15", Engine: "syncsim", Config: C15Config, Run: RunC15,
		OpLimit:    func(cfg map[string]int64) int { return int(cfg["ops"]) },
		Nontrivial: func(s Stats) bool { return s["injections"] >= 2 }})
}

package sim

// C05: syncers deliver every watched event exactly once, in chain order.
// Engine: syncsim. Real EVMDownloader + EVMDriver + ReorgDetector (SQLite)
// against the fake chain; a recording processor is the store.

import (
	"context"
	"errors"
	"fmt"
	"os"
	"path/filepath"
	"sync"
	"time"

	cfgtypes "github.com/agglayer/aggkit/config/types"
	"github.com/agglayer/aggkit/db/types"
	"github.com/agglayer/aggkit/reorgdetector"
	aggsync "github.com/agglayer/aggkit/sync"
	aggkittypes "github.com/agglayer/aggkit/types"
	"github.com/ethereum/go-ethereum/common"
	ethtypes "github.com/ethereum/go-ethereum/core/types"
)

var (
	c05Watched = common.HexToAddress("0x00000000000000000000000000000000000c0501")
	c05Other   = common.HexToAddress("0x00000000000000000000000000000000000c0502")
	c05T1      = common.HexToHash("0x1111111111111111111111111111111111111111111111111111111111111111")
	c05T2      = common.HexToHash("0x2222222222222222222222222222222222222222222222222222222222222222")
	c05Noise   = common.HexToHash("0x3333333333333333333333333333333333333333333333333333333333333333")
)

var finalityTags = []aggkittypes.BlockNumberFinality{aggkittypes.LatestBlock, aggkittypes.SafeBlock, aggkittypes.FinalizedBlock}

func tagValue(c *Chain, tag aggkittypes.BlockNumberFinality) uint64 {
	switch tag {
	case aggkittypes.FinalizedBlock:
		return min(c.Finalized, c.HeadNum())
	case aggkittypes.SafeBlock:
		return min(c.Safe, c.HeadNum())
	}
	return c.HeadNum()
}

// recProcessor is the recording store handed to the real EVMDriver.
type recProcessor struct {
	mu        sync.Mutex
	chain     *Chain
	last      uint64
	delivered []recBlock
	failNext  int
	failLast  int // the next failLast reads of the last-processed marker fail (transient store error), returning 0 like the real stores
	inRetry   bool
	viol      *Violation
	rec       *Recorder
	compat    *aggsync.RuntimeData
	reorgs    []uint64
	allowReorg bool
}

type recBlock struct {
	Num    uint64
	Hash   common.Hash
	Events []ethtypes.Log
}

func watchedLogs(b *FBlock) []ethtypes.Log {
	out := []ethtypes.Log{}
	for _, l := range b.Logs {
		if l.Removed || l.Address != c05Watched {
			continue
		}
		if l.Topics[0] == c05T1 || l.Topics[0] == c05T2 {
			out = append(out, l)
		}
	}
	return out
}

func (p *recProcessor) GetLastProcessedBlock(ctx context.Context) (uint64, error) {
	p.mu.Lock()
	defer p.mu.Unlock()
	if p.failLast > 0 {
		p.failLast--
		p.rec.Stats.Inc("fault_last_processed_read_error")
		return 0, errors.New("injected GetLastProcessedBlock failure")
	}
	return p.last, nil
}

func (p *recProcessor) setViol(oracle, sig, format string, a ...any) {
	if p.viol == nil {
		p.viol = &Violation{Oracle: oracle, Sig: sig, Detail: fmt.Sprintf(format, a...)}
	}
}

func (p *recProcessor) ProcessBlock(ctx context.Context, b aggsync.Block) error {
	p.mu.Lock()
	defer p.mu.Unlock()
	if p.failNext > 0 {
		p.failNext--
		p.inRetry = true
		p.rec.Stats.Inc("fault_processblock_error")
		return errors.New("injected ProcessBlock failure")
	}
	p.inRetry = false
	if b.Num <= p.last {
		p.setViol("order", "c05/repeat", "block %d handed to the store after block %d (repeated or out of order)", b.Num, p.last)
		return nil
	}
	// none of the watched blocks between the previous delivery and this one may be skipped
	for n := p.last + 1; n < b.Num && n <= p.chain.HeadNum(); n++ {
		if len(watchedLogs(p.chain.Canon[n])) > 0 {
			p.setViol("completeness", "c05/skip", "block %d with %d watched events was skipped: the store received block %d right after %d", n, len(watchedLogs(p.chain.Canon[n])), b.Num, p.last)
			return nil
		}
	}
	if b.Num > p.chain.HeadNum() {
		p.setViol("content", "c05/unknown-block", "block %d delivered but the chain head is %d", b.Num, p.chain.HeadNum())
		return nil
	}
	cb := p.chain.Canon[b.Num]
	if b.Hash != cb.Hash {
		p.setViol("content", "c05/hash", "block %d delivered with hash %s, chain has %s", b.Num, b.Hash.Hex(), cb.Hash.Hex())
		return nil
	}
	want := watchedLogs(cb)
	if len(b.Events) != len(want) {
		p.setViol("content", "c05/events", "block %d delivered with %d events, the chain has %d watched logs in it", b.Num, len(b.Events), len(want))
		return nil
	}
	rb := recBlock{Num: b.Num, Hash: b.Hash}
	for i, e := range b.Events {
		l, ok := e.(ethtypes.Log)
		if !ok {
			p.setViol("content", "c05/events", "unexpected event type %T", e)
			return nil
		}
		if l.TxHash != want[i].TxHash || l.Index != want[i].Index || l.BlockNumber != b.Num || l.BlockHash != cb.Hash {
			p.setViol("content", "c05/event-order", "block %d event %d is log (tx %s idx %d blk %d), chain order says (tx %s idx %d)", b.Num, i, l.TxHash.Hex()[:10], l.Index, l.BlockNumber, want[i].TxHash.Hex()[:10], want[i].Index)
			return nil
		}
		rb.Events = append(rb.Events, l)
	}
	p.delivered = append(p.delivered, rb)
	p.last = b.Num
	p.rec.Stats.Inc("blocks_delivered")
	if len(want) > 0 {
		p.rec.Stats.Inc("event_blocks_delivered")
	} else {
		p.rec.Stats.Inc("empty_blocks_delivered")
	}
	return nil
}

func (p *recProcessor) Reorg(ctx context.Context, first uint64) error {
	p.mu.Lock()
	defer p.mu.Unlock()
	p.reorgs = append(p.reorgs, first)
	if !p.allowReorg {
		p.setViol("spurious-reorg", "c05/spurious-reorg", "Reorg(%d) delivered although the chain never replaced a block", first)
	}
	return nil
}

func (p *recProcessor) GetCompatibilityData(ctx context.Context, tx types.Querier) (bool, aggsync.RuntimeData, error) {
	p.mu.Lock()
	defer p.mu.Unlock()
	if p.compat == nil {
		return false, aggsync.RuntimeData{}, nil
	}
	return true, *p.compat, nil
}

func (p *recProcessor) SetCompatibilityData(ctx context.Context, tx types.Querier, data aggsync.RuntimeData) error {
	p.mu.Lock()
	defer p.mu.Unlock()
	p.compat = &data
	return nil
}

func C05Config(prop string, r *Rand, tier string) map[string]int64 {
	c := map[string]int64{}
	chunks := []int64{1, 1, 2, 2, 3, 4, 5, 7, 10, 16, 64}
	c["chunk"] = chunks[r.Intn(len(chunks))]
	bufs := []int64{1, 1, 2, 3, 10, 1000}
	c["buffer"] = bufs[r.Intn(len(bufs))]
	c["wait_ms"] = int64([]int{100, 500, 1000, 5000}[r.Intn(4)])
	c["retry_ms"] = int64([]int{50, 200, 1000}[r.Intn(3)])
	c["reorg_ms"] = int64([]int{1000, 2000, 10000}[r.Intn(3)])
	c["sync_tag"] = int64(r.Intn(3))     // Latest / Safe / Finalized: what the syncer follows
	c["detector_tag"] = int64(r.Intn(3)) // Latest(disabled) / Safe / Finalized
	c["ops"] = int64(r.Range(20, 120))
	if tier == "thorough" {
		c["ops"] = int64(r.Range(30, 300))
	}
	c["start"] = 0
	if r.Bool(30) {
		c["start"] = int64(r.Range(1, 6))
	}
	// transient failures of the store's marker read when the driver starts
	c["lastfail"] = int64([]int{0, 0, 0, 1, 1, 2}[r.Intn(6)])
	c["log_density"] = int64(r.Range(10, 70)) // % of blocks with watched logs
	c["w_mine"] = int64(r.Range(5, 25))
	c["w_fin"] = int64(r.Range(3, 20))
	c["w_rel"] = 50
	c["w_time"] = int64(r.Range(5, 25))
	c["w_rpcfault"] = int64(r.Range(0, 12))
	c["w_procfail"] = int64(r.Range(0, 5))
	if r.Bool(15) { // fault-free batch
		c["w_rpcfault"], c["w_procfail"], c["lastfail"] = 0, 0, 0
	}
	c["tip_final"] = 0
	if r.Bool(15) {
		c["tip_final"] = 1 // "tip is finalized": the finalized pointer follows the head immediately
	}
	return c
}

// c05Fill generates the logs of one block.
func c05Fill(r *Rand, density int) func(b *FBlock) {
	return func(b *FBlock) {
		if !r.Bool(density) {
			// maybe noise only
			if r.Bool(30) {
				b.Logs = append(b.Logs, ethtypes.Log{Address: c05Watched, Topics: []common.Hash{c05Noise}, TxHash: genHash(r)})
			}
			return
		}
		n := 1
		if r.Bool(40) {
			n = r.Range(2, 4)
		}
		for i := 0; i < n; i++ {
			t := c05T1
			if r.Bool(40) {
				t = c05T2
			}
			if r.Bool(25) {
				b.Logs = append(b.Logs, ethtypes.Log{Address: c05Watched, Topics: []common.Hash{c05Noise}, TxHash: genHash(r)})
			}
			if r.Bool(10) {
				b.Logs = append(b.Logs, ethtypes.Log{Address: c05Other, Topics: []common.Hash{t}, TxHash: genHash(r)})
			}
			if r.Bool(8) {
				b.Logs = append(b.Logs, ethtypes.Log{Address: c05Watched, Topics: []common.Hash{t}, TxHash: genHash(r), Removed: true})
			}
			b.Logs = append(b.Logs, ethtypes.Log{Address: c05Watched, Topics: []common.Hash{t, genHash(r)}, Data: r.Bytes(r.Intn(40)), TxHash: genHash(r), TxIndex: uint(i)})
		}
	}
}

// syncParts are the real node objects of a generic syncer.
type syncParts struct {
	cancel context.CancelFunc
	rd     *reorgdetector.ReorgDetector
}

func RunC05(prop string, tr *Trace, sc *Script, rec *Recorder, scratch string) (viol *Violation) {
	InstallSQLiteHooks()
	var perr any
	perr = InBubble(workerT, func() {
		defer func() {
			if r := recover(); r != nil {
				viol = &Violation{Oracle: "harness", Detail: fmt.Sprintf("scheduler panic: %v", r)}
			}
		}()
		viol = runC05(tr, sc, rec, scratch)
	})
	if perr != nil && viol == nil {
		viol = &Violation{Oracle: "harness", Detail: fmt.Sprintf("bubble panic: %v", perr)}
	}
	return viol
}

func runC05(tr *Trace, sc *Script, rec *Recorder, scratch string) *Violation {
	cfg := tr.Cfg
	dir := filepath.Join(scratch, fmt.Sprintf("c05-%d-%d", tr.Seed, tr.Run))
	os.RemoveAll(dir)
	os.MkdirAll(dir, 0o755)
	defer os.RemoveAll(dir)

	w := NewWorld(rec)
	chain := NewChain(1337, tr.Seed)
	syncTag := finalityTags[cfg["sync_tag"]%3]
	detTag := finalityTags[cfg["detector_tag"]%3]
	proc := &recProcessor{chain: chain, rec: rec, last: uint64(cfg["start"]), failLast: int(cfg["lastfail"])}
	// pre-existing chain up to the start block (already "processed")
	pre := NewRand(tr.Seed ^ 0xc05)
	for i := int64(0); i < cfg["start"]; i++ {
		chain.Mine(pre.U64(), c05Fill(pre, int(cfg["log_density"])))
	}
	// whatever was processed before the restart was at or below the followed tag then
	chain.Finalized, chain.Safe = chain.HeadNum(), chain.HeadNum()

	ctx, cancel := context.WithCancel(context.Background())
	var rd *reorgdetector.ReorgDetector
	defer func() {
		w.Kill()
		cancel()
		w.Quiesce()
		if rd != nil {
			closePrivateDB(rd, "db")
		}
	}()
	rdClient := &FakeClient{W: w, C: chain, Label: "rd", Epoch: w.Epoch}
	dlClient := &FakeClient{W: w, C: chain, Label: "dl", Epoch: w.Epoch}
	var err error
	rd, err = reorgdetector.New(rdClient, reorgdetector.Config{DBPath: filepath.Join(dir, "rd.sqlite"),
		CheckReorgsInterval: cfgtypes.NewDuration(time.Duration(cfg["reorg_ms"]) * time.Millisecond), FinalizedBlock: detTag}, reorgdetector.L1)
	if err != nil {
		return &Violation{Oracle: "harness", Detail: "reorgdetector.New: " + err.Error()}
	}
	rh := &aggsync.RetryHandler{RetryAfterErrorPeriod: time.Duration(cfg["retry_ms"]) * time.Millisecond, MaxRetryAttemptsAfterError: -1}
	appender := aggsync.LogAppenderMap{}
	record := func(b *aggsync.EVMBlock, l ethtypes.Log) error {
		b.Events = append(b.Events, l)
		return nil
	}
	appender[c05T1] = record
	appender[c05T2] = record
	dl, err := aggsync.NewEVMDownloader("c05", dlClient, uint64(cfg["chunk"]), syncTag, time.Duration(cfg["wait_ms"])*time.Millisecond,
		appender, []common.Address{c05Watched}, rh, rd.GetFinalizedBlockType())
	if err != nil {
		return &Violation{Oracle: "harness", Detail: "NewEVMDownloader: " + err.Error()}
	}
	// Start before Subscribe: the other serialisation of the cmd/run.go race is C06's subject
	if err := rd.Start(ctx); err != nil {
		return &Violation{Oracle: "harness", Detail: "rd.Start: " + err.Error()}
	}
	drv, err := aggsync.NewEVMDriver(rd, proc, dl, "c05", int(cfg["buffer"]), rh, true)
	if err != nil {
		return &Violation{Oracle: "harness", Detail: "NewEVMDriver: " + err.Error()}
	}
	w.EndSetup()
	go drv.Sync(ctx)
	w.Quiesce()

	density := int(cfg["log_density"])
	steps := 0
	gen := func(r *Rand) (Op, bool) {
		labels := w.ParkedLabels()
		proc.mu.Lock()
		retry := proc.inRetry
		proc.mu.Unlock()
		if retry {
			// while the driver sleeps in a retry nothing else is released (select determinism rule)
			return Op{K: "time", A: []int64{cfg["retry_ms"]}}, true
		}
		wts := []int{int(cfg["w_mine"]), int(cfg["w_fin"]), int(cfg["w_rel"]), int(cfg["w_time"]), int(cfg["w_rpcfault"]), int(cfg["w_procfail"])}
		if len(labels) == 0 {
			wts[2], wts[4] = 0, 0
			wts[3] += 30
		}
		switch r.Pick(wts) {
		case 0:
			n := 1
			if r.Bool(35) {
				n = r.Range(2, 9)
			}
			return Op{K: "mine", A: []int64{int64(r.U64() >> 1), int64(n)}}, true
		case 1:
			return Op{K: "fin", A: []int64{int64(r.Range(0, 6)), int64(r.Range(0, 3))}}, true
		case 2:
			return Op{K: "rel", S: labels[r.Intn(len(labels))], A: []int64{0}}, true
		case 3:
			ms := []int64{cfg["wait_ms"], cfg["retry_ms"], cfg["reorg_ms"], 100, 3000}[r.Intn(5)]
			return Op{K: "time", A: []int64{ms}}, true
		case 4:
			// transient error or NotFound; stale views are not part of C05's quantifier (pointers only advance)
			m := int64(1 + r.Intn(2))
			if r.Bool(30) {
				m = replyDeadline // request timeout: also a transient RPC failure
			}
			if r.Bool(20) {
				m = replyOtherFork // the header of a block with watched logs comes from an RPC node on another fork
			}
			return Op{K: "rel", S: labels[r.Intn(len(labels))], A: []int64{m}}, true
		default:
			if r.Bool(25) {
				// the marker read fails the next time the driver (re)starts its loop (after a reorg)
				return Op{K: "lastfail", A: []int64{1}}, true
			}
			return Op{K: "procfail", A: []int64{int64(1 + r.Intn(2))}}, true
		}
	}

	// other-fork answers since the store last received a block: the downloader asks for the whole range again after
	// each of them and gives up (range treated as empty) after MaxRetryCountBlockHashMismatch = 5 in a row for one
	// range; answers to other requests in between (the range's logs, headers of earlier blocks) do not reset that
	otherForkStreak, deliveredAtStreak := 0, 0
	apply := func(op Op) {
		steps++
		rec.Stats.Inc("steps")
		switch op.K {
		case "mine":
			r := NewRand(uint64(op.Arg(0)))
			chain.snapshotPrev()
			for i := int64(0); i < op.Arg(1); i++ {
				chain.Mine(r.U64(), c05Fill(r, density))
			}
			if cfg["tip_final"] == 1 {
				chain.Finalized, chain.Safe = chain.HeadNum(), chain.HeadNum()
			}
			rec.Stats.Add("blocks_mined", op.Arg(1))
			rec.Step(fmt.Sprintf("M%d", op.Arg(1)))
		case "fin":
			chain.snapshotPrev()
			chain.Finalized = min(chain.Finalized+uint64(op.Arg(0)), chain.HeadNum())
			chain.Safe = min(max(chain.Safe, chain.Finalized)+uint64(op.Arg(1)), chain.HeadNum())
			rec.Step("F")
		case "rel":
			p := w.FirstParked(op.S)
			if p == nil {
				return
			}
			mode := int(op.Arg(0))
			if mode == replyNotFound && !(p.method == "HeaderByNumber" && p.desc[0] >= '0' && p.desc[0] <= '9') {
				mode = replyTransient
			}
			if mode == replyStale {
				mode = replyOK
			}
			if mode == replyDeadline && p.method != "HeaderByNumber" && p.method != "FilterLogs" {
				mode = replyTransient
			}
			if mode == replyOtherFork {
				// only where the downloader cross-checks (the header of a block it has watched logs of), and never
				// so often in a row that its bounded retry gives up (a persistently inconsistent RPC is not a fault
				// a node can be expected to survive)
				ok := false
				proc.mu.Lock()
				if len(proc.delivered) != deliveredAtStreak {
					otherForkStreak, deliveredAtStreak = 0, len(proc.delivered)
				}
				proc.mu.Unlock()
				if p.label == "dl" && p.method == "HeaderByNumber" && p.desc[0] >= '0' && p.desc[0] <= '9' && otherForkStreak < 2 {
					var n uint64
					fmt.Sscan(p.desc, &n)
					if n < uint64(len(chain.Canon)) && len(watchedLogs(chain.Canon[n])) > 0 {
						ok = true
					}
				}
				if !ok {
					mode = replyTransient
				}
			}
			if p.label == "dl" && p.method == "HeaderByNumber" && mode == replyOtherFork {
				otherForkStreak++
			}
			if mode != replyOK {
				rec.Stats.Inc(fmt.Sprintf("rpc_fault_%d_%s", mode, p.method))
			}
			rec.Step("r" + p.label + p.method[:1] + fmt.Sprint(mode))
			w.Release(p, mode)
		case "time":
			w.Advance(time.Duration(op.Arg(0)) * time.Millisecond)
			rec.Step("T")
		case "lastfail":
			proc.mu.Lock()
			proc.failLast = int(op.Arg(0))
			proc.mu.Unlock()
			rec.Step("Lf")
		case "procfail":
			proc.mu.Lock()
			proc.failNext += int(op.Arg(0))
			proc.mu.Unlock()
			rec.Step("P")
		}
		rec.Event("after %s: parked=[%s] last=%d delivered=%d head=%d fin=%d", op, w.ParkedDigest(), proc.last, len(proc.delivered), chain.HeadNum(), chain.Finalized)
		rec.State(fmt.Sprintf("%d:%d:%d:%s", chain.HeadNum()-proc.last, chain.Finalized, len(w.Parked()), w.ParkedDigest()))
	}

	for {
		op, ok := sc.Next(gen)
		if !ok {
			break
		}
		apply(op)
		if proc.viol != nil {
			return proc.viol
		}
	}
	// drain: faults stop; fair policy; bounded liveness
	proc.mu.Lock()
	proc.failNext = 0
	proc.mu.Unlock()
	complete := func() (bool, uint64) {
		tip := tagValue(chain, syncTag)
		proc.mu.Lock()
		defer proc.mu.Unlock()
		for n := proc.last + 1; n <= tip; n++ {
			if len(watchedLogs(chain.Canon[n])) > 0 {
				return false, n
			}
		}
		return true, 0
	}
	cap := 400 + 40*int(chain.HeadNum())
	rr := 0
	for i := 0; i < cap; i++ {
		if ok, _ := complete(); ok {
			break
		}
		ps := w.Parked()
		if len(ps) > 0 {
			w.Release(ps[rr%len(ps)], replyOK)
			rr++
		} else {
			w.Advance(time.Duration(min(cfg["wait_ms"], cfg["retry_ms"])) * time.Millisecond)
		}
		rec.Stats.Inc("drain_steps")
		if proc.viol != nil {
			return proc.viol
		}
	}
	if ok, missing := complete(); !ok {
		return &Violation{Oracle: "liveness", Sig: "c05/not-delivered", Detail: fmt.Sprintf("after faults stopped and %d fair scheduler steps, watched block %d (<= synced tip %d) was still not delivered; last delivered %d", cap, missing, tagValue(chain, syncTag), proc.last)}
	}
	// exactly-once over the whole history
	seen := map[uint64]bool{}
	for _, d := range proc.delivered {
		if seen[d.Num] {
			return &Violation{Oracle: "order", Sig: "c05/repeat", Detail: fmt.Sprintf("block %d delivered twice", d.Num)}
		}
		seen[d.Num] = true
	}
	rec.Event("final delivered=%d last=%d", len(proc.delivered), proc.last)
	return nil
}

func init() {
	register(&PropSpec{ID: "C05", Engine: "syncsim", Config: C05Config, Run: RunC05,
		OpLimit:    func(cfg map[string]int64) int { return int(cfg["ops"]) },
		Nontrivial: func(s Stats) bool { return s["event_blocks_delivered"] >= 2 }})
}

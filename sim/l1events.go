package sim

// ABI-encoded L1 events (GlobalExitRootV2 / RollupManager) for the fake chain,
// decoded by the node's real appenders.

import (
	"fmt"
	"math/big"

	"github.com/0xPolygon/cdk-contracts-tooling/contracts/fep/etrog/polygonrollupmanager"
	"github.com/0xPolygon/cdk-contracts-tooling/contracts/pp/l2-sovereign-chain/polygonzkevmglobalexitrootv2"
	"github.com/agglayer/aggkit/l1infotreesync"
	"github.com/ethereum/go-ethereum/accounts/abi"
	"github.com/ethereum/go-ethereum/common"
	ethtypes "github.com/ethereum/go-ethereum/core/types"
)

var (
	addrGER    = common.HexToAddress("0x00000000000000000000000000000000000e0001")
	addrRM     = common.HexToAddress("0x00000000000000000000000000000000000e0002")
	gerABI     = mustABI(polygonzkevmglobalexitrootv2.Polygonzkevmglobalexitrootv2MetaData.GetAbi())
	rmABI      = mustABI(polygonrollupmanager.PolygonrollupmanagerMetaData.GetAbi())
)

func mustABI(a *abi.ABI, err error) *abi.ABI {
	if err != nil {
		panic(err)
	}
	return a
}

// packLog builds a log for event `name` of `a`: indexed args become topics, the rest data.
func packLog(a *abi.ABI, addr common.Address, name string, args ...any) ethtypes.Log {
	ev, ok := a.Events[name]
	if !ok {
		panic("no event " + name)
	}
	if len(args) != len(ev.Inputs) {
		panic(fmt.Sprintf("event %s wants %d args", name, len(ev.Inputs)))
	}
	topics := []common.Hash{ev.ID}
	var nonIdx []any
	var idxArgs abi.Arguments
	var idxVals []any
	for i, in := range ev.Inputs {
		if in.Indexed {
			idxArgs = append(idxArgs, in)
			idxVals = append(idxVals, args[i])
		} else {
			nonIdx = append(nonIdx, args[i])
		}
	}
	if len(idxVals) > 0 {
		q := make([][]any, len(idxVals))
		for i, v := range idxVals {
			q[i] = []any{v}
		}
		ts, err := abi.MakeTopics(q...)
		if err != nil {
			panic(err)
		}
		for _, t := range ts {
			topics = append(topics, t[0])
		}
	}
	data, err := ev.Inputs.NonIndexed().Pack(nonIdx...)
	if err != nil {
		panic(fmt.Sprintf("pack %s: %v", name, err))
	}
	return ethtypes.Log{Address: addr, Topics: topics, Data: data}
}

// L1Gen generates L1 info / verify-batches events for blocks of a fake chain
// and keeps the reference model of the canonical chain.
type L1Gen struct {
	Model *L1Model
	// MaxPerBlock bounds the events of a block.
	MaxPerBlock int
	// Roots, when set, supplies the exit roots of the next L1 info leaf (joint L1/L2 reference of C09).
	Roots func(r *Rand) (mer, rer common.Hash)
	// Carry: exit-root pairs of L1 info updates that a reorg dropped; the new fork includes them again (same global
	// exit root, another block, parent hash and time stamp) before anything new
	Carry [][2]common.Hash
}

func NewL1Gen() *L1Gen { return &L1Gen{Model: NewL1Model(), MaxPerBlock: 3} }

// Rebuild recomputes the model from the canonical chain's payloads.
func (g *L1Gen) Rebuild(c *Chain) {
	g.Model = NewL1Model()
	for _, b := range c.Canon[1:] {
		if mb, ok := b.Payload.(MBlock); ok && len(mb.Events) > 0 {
			g.Model.Apply(mb)
		}
	}
}

// Fill returns the fill function for Chain.Mine: it derives typed events with
// GenL1Block-like rules, encodes them as logs and stores the typed events as payload.
func (g *L1Gen) Fill(r *Rand, density int) func(b *FBlock) {
	return func(b *FBlock) {
		num := b.Num()
		mb := MBlock{Num: num, Hash: b.Hash}
		if !r.Bool(density) && len(g.Carry) == 0 {
			b.Payload = mb
			return
		}
		n := 1
		if r.Bool(35) {
			n = r.Range(2, max(2, g.MaxPerBlock))
		}
		tmp := g.Model.Tree.Clone()
		cur := g.Model.Rollup.Clone()
		gers := map[common.Hash]bool{}
		for i := 0; i < n; i++ {
			pos := func() uint64 { return uint64(len(b.Logs)) }
			if r.Bool(60) {
				var mer, rer common.Hash
				for {
					if len(g.Carry) > 0 {
						mer, rer = g.Carry[0][0], g.Carry[0][1]
						g.Carry = g.Carry[1:]
					} else if g.Roots != nil {
						mer, rer = g.Roots(r)
					} else {
						mer, rer = genHash(r), genHash(r)
						if len(g.Model.Leaves) > 0 && r.Intn(4) == 0 {
							rer = g.Model.Leaves[r.Intn(len(g.Model.Leaves))].RER
						}
					}
					ger := keccak2(mer, rer)
					if !g.Model.GERs[ger] && !gers[ger] {
						gers[ger] = true
						break
					}
				}
				mb.Events = append(mb.Events, l1infotreesync.Event{UpdateL1InfoTree: &l1infotreesync.UpdateL1InfoTree{
					BlockPosition: pos(), MainnetExitRoot: mer, RollupExitRoot: rer, ParentHash: b.Header.ParentHash, Timestamp: b.Header.Time}})
				b.Logs = append(b.Logs, withTx(packLog(gerABI, addrGER, "UpdateL1InfoTree", [32]byte(mer), [32]byte(rer)), genHash(r)))
				root := tmp.Append(refL1LeafHash(keccak2(mer, rer), b.Header.ParentHash, b.Header.Time))
				if r.Bool(70) {
					mb.Events = append(mb.Events, l1infotreesync.Event{UpdateL1InfoTreeV2: &l1infotreesync.UpdateL1InfoTreeV2{
						CurrentL1InfoRoot: root, LeafCount: uint32(len(tmp.Leaves)), Blockhash: b.Header.ParentHash, MinTimestamp: b.Header.Time}})
					b.Logs = append(b.Logs, withTx(packLog(gerABI, addrGER, "UpdateL1InfoTreeV2", [32]byte(root), uint32(len(tmp.Leaves)),
						new(big.Int).SetBytes(b.Header.ParentHash[:]), b.Header.Time), genHash(r)))
				}
			} else {
				rid := uint32(1 + r.Intn(4))
				var er common.Hash
				switch r.Intn(6) {
				case 0:
				case 1:
					if c, ok := cur.Leaves[rid-1]; ok {
						er = c
					} else {
						er = genHash(r)
					}
				default:
					er = genHash(r)
				}
				if er != (common.Hash{}) {
					cur.Set(rid-1, er)
				}
				nb, sr, ag := r.U64()%100000, genHash(r), genAddr(r)
				mb.Events = append(mb.Events, l1infotreesync.Event{VerifyBatches: &l1infotreesync.VerifyBatches{
					BlockPosition: pos(), RollupID: rid, NumBatch: nb, StateRoot: sr, ExitRoot: er, Aggregator: ag}})
				name := "VerifyBatches"
				if r.Bool(50) {
					name = "VerifyBatchesTrustedAggregator"
				}
				b.Logs = append(b.Logs, withTx(packLog(rmABI, addrRM, name, rid, nb, [32]byte(sr), [32]byte(er), ag), genHash(r)))
			}
		}
		b.Payload = mb
		if len(mb.Events) > 0 {
			g.Model.Apply(mb)
		}
	}
}

func withTx(l ethtypes.Log, tx common.Hash) ethtypes.Log {
	l.TxHash = tx
	return l
}

package sim

// C16: the injected-GER index reflects what was really injected on L2.
// Engine: syncsim with the real lastgersync.New (PP event downloader or FEP
// contract poller), real processor + SQLite, real EVMDriver and ReorgDetector,
// against a fake L2 chain; the L1 info tree side is a small model.

import (
	"context"
	"errors"
	"fmt"
	"math/big"
	"os"
	"path/filepath"
	"sync"
	"time"

	"github.com/0xPolygon/cdk-contracts-tooling/contracts/pp/l2-sovereign-chain/globalexitrootmanagerl2sovereignchain"
	cfgtypes "github.com/agglayer/aggkit/config/types"
	"github.com/agglayer/aggkit/db"
	"github.com/agglayer/aggkit/l1infotreesync"
	"github.com/agglayer/aggkit/lastgersync"
	"github.com/agglayer/aggkit/reorgdetector"
	treetypes "github.com/agglayer/aggkit/tree/types"
	aggkittypes "github.com/agglayer/aggkit/types"
	"github.com/ethereum/go-ethereum/common"
	ethtypes "github.com/ethereum/go-ethereum/core/types"
)

var (
	addrL2GER = common.HexToAddress("0x00000000000000000000000000000000000a2001")
	l2gerABI  = mustABI(globalexitrootmanagerl2sovereignchain.Globalexitrootmanagerl2sovereignchainMetaData.GetAbi())
)

const c16NGERs = 72

func c16GER(idx uint32) common.Hash { return keccakBytes([]byte("c16ger"), []byte{byte(idx)}) }

// l1InfoModel is the L1 info tree as the lastgersync downloaders see it.
type l1InfoModel struct {
	mu    sync.Mutex
	known int // leaves 0..known-1 are synced
}

func (m *l1InfoModel) GetLastL1InfoTreeRoot(ctx context.Context) (treetypes.Root, error) {
	m.mu.Lock()
	defer m.mu.Unlock()
	if m.known == 0 {
		return treetypes.Root{}, db.ErrNotFound
	}
	return treetypes.Root{Index: uint32(m.known - 1), Hash: keccakBytes([]byte{byte(m.known)})}, nil
}
func (m *l1InfoModel) GetInfoByIndex(ctx context.Context, index uint32) (*l1infotreesync.L1InfoTreeLeaf, error) {
	m.mu.Lock()
	defer m.mu.Unlock()
	if int(index) >= m.known {
		return nil, db.ErrNotFound
	}
	return &l1infotreesync.L1InfoTreeLeaf{L1InfoTreeIndex: index, GlobalExitRoot: c16GER(index)}, nil
}
func (m *l1InfoModel) GetInfoByGlobalExitRoot(ger common.Hash) (*l1infotreesync.L1InfoTreeLeaf, error) {
	m.mu.Lock()
	defer m.mu.Unlock()
	for i := 0; i < m.known; i++ {
		if c16GER(uint32(i)) == ger {
			return &l1infotreesync.L1InfoTreeLeaf{L1InfoTreeIndex: uint32(i), GlobalExitRoot: ger}, nil
		}
	}
	return nil, db.ErrNotFound
}

// c16Ev is the payload of an L2 block: at most one GER event.
type c16Ev struct {
	Idx    uint32
	Remove bool
	None   bool
}

func C16Config(prop string, r *Rand, tier string) map[string]int64 {
	c := map[string]int64{}
	c["fep"] = 0
	if r.Bool(25) {
		c["fep"] = 1
	}
	c["wait_ms"] = int64([]int{100, 500, 2000}[r.Intn(3)])
	c["retry_ms"] = int64([]int{50, 500}[r.Intn(2)])
	c["reorg_ms"] = int64([]int{500, 2000, 10000}[r.Intn(3)])
	c["buffer"] = int64([]int{1, 2, 100}[r.Intn(3)])
	c["detector_tag"] = int64(1 + r.Intn(2))
	c["ops"] = int64(r.Range(20, 110))
	if tier == "thorough" {
		c["ops"] = int64(r.Range(30, 260))
	}
	c["density"] = int64(r.Range(20, 70))
	c["removals"] = 0
	if r.Bool(50) && c["fep"] == 0 {
		c["removals"] = 1
	}
	c["w_mine"] = int64(r.Range(8, 25))
	c["w_fork"] = int64(r.Range(0, 10))
	if r.Bool(35) {
		c["w_fork"] = 0
	}
	c["w_fin"] = int64(r.Range(2, 10))
	c["w_rel"] = 50
	c["w_time"] = int64(r.Range(8, 25))
	c["w_rpcfault"] = int64(r.Range(0, 6))
	c["w_crash"] = int64(r.Range(0, 4))
	c["w_crashat"] = int64(r.Range(0, 4))
	c["w_l1"] = int64(r.Range(2, 10)) // L1 info syncer catches up
	c["big_jumps"] = 0
	if r.Bool(35) {
		c["big_jumps"] = 1
	}
	c["l1_known"] = int64(r.Range(0, c16NGERs))
	if r.Bool(40) {
		c["l1_known"] = c16NGERs // never lags
	}
	return c
}

func RunC16(prop string, tr *Trace, sc *Script, rec *Recorder, scratch string) (viol *Violation) {
	InstallSQLiteHooks()
	perr := InBubble(workerT, func() {
		defer func() {
			if r := recover(); r != nil {
				viol = &Violation{Oracle: "harness", Detail: fmt.Sprintf("scheduler panic: %v", r)}
			}
		}()
		viol = runC16(tr, sc, rec, scratch)
	})
	if perr != nil && viol == nil {
		viol = &Violation{Oracle: "harness", Detail: fmt.Sprintf("bubble panic: %v", perr)}
	}
	return viol
}

type c16Node struct {
	ctx    context.Context
	cancel context.CancelFunc
	rd     *reorgdetector.ReorgDetector
	syncer *lastgersync.LastGERSync
	vp     *lastgersync.VerifProcessor
}

// c16Present: GERs injected and not removed on the canonical chain up to block `upTo`.
func c16Present(chain *Chain, upTo uint64) map[uint32]uint64 {
	p := map[uint32]uint64{}
	for n := uint64(1); n <= upTo && n <= chain.HeadNum(); n++ {
		ev, ok := chain.Canon[n].Payload.(c16Ev)
		if !ok || ev.None {
			continue
		}
		if ev.Remove {
			delete(p, ev.Idx)
		} else {
			p[ev.Idx] = n
		}
	}
	return p
}

func runC16(tr *Trace, sc *Script, rec *Recorder, scratch string) *Violation {
	cfg := tr.Cfg
	dir := filepath.Join(scratch, fmt.Sprintf("c16-%d-%d", tr.Seed, tr.Run))
	os.RemoveAll(dir)
	os.MkdirAll(dir, 0o755)
	defer os.RemoveAll(dir)
	w := NewWorld(rec)
	chain := NewChain(2442, tr.Seed)
	fep := cfg["fep"] == 1
	mode := lastgersync.PP
	if fep {
		mode = lastgersync.FEP
	}
	detTag := finalityTags[cfg["detector_tag"]%3]
	l1 := &l1InfoModel{known: int(cfg["l1_known"])}
	storePath := filepath.Join(dir, "lastger.sqlite")
	rdPath := filepath.Join(dir, "rd.sqlite")
	// view function globalExitRootMap(bytes32): non-zero when injected as of that block
	sel := l2gerABI.Methods["globalExitRootMap"].ID
	chain.CallFn = func(c *Chain, at *FBlock, to common.Address, data []byte) ([]byte, error) {
		if to != addrL2GER || len(data) < 36 || string(data[:4]) != string(sel) {
			return nil, errors.New("execution reverted")
		}
		ger := common.BytesToHash(data[4:36])
		out := make([]byte, 32)
		for idx, blk := range c16Present(c, at.Num()) {
			if c16GER(idx) == ger {
				new(big.Int).SetUint64(1700000000 + blk).FillBytes(out)
			}
		}
		return out, nil
	}
	floor := func() uint64 {
		if detTag == aggkittypes.SafeBlock {
			return chain.Safe
		}
		return chain.Finalized
	}
	var node *c16Node
	start := func() *Violation {
		w.BeginSetup()
		defer w.EndSetup()
		ctx, cancel := context.WithCancel(context.Background())
		n := &c16Node{ctx: ctx, cancel: cancel}
		var err error
		n.rd, err = reorgdetector.New(&FakeClient{W: w, C: chain, Label: "rd", Epoch: w.Epoch}, reorgdetector.Config{DBPath: rdPath,
			CheckReorgsInterval: cfgtypes.NewDuration(time.Duration(cfg["reorg_ms"]) * time.Millisecond), FinalizedBlock: detTag}, reorgdetector.L2)
		if err != nil {
			return &Violation{Oracle: "harness", Detail: "reorgdetector.New: " + err.Error()}
		}
		if err := n.rd.Start(ctx); err != nil {
			return &Violation{Oracle: "harness", Detail: "rd.Start: " + err.Error()}
		}
		n.syncer, err = lastgersync.New(ctx, storePath, n.rd, &FakeClient{W: w, C: chain, Label: "dl", Epoch: w.Epoch}, addrL2GER, l1,
			time.Duration(cfg["retry_ms"])*time.Millisecond, -1, aggkittypes.LatestBlock, time.Duration(cfg["wait_ms"])*time.Millisecond,
			int(cfg["buffer"]), true, mode)
		if err != nil {
			return &Violation{Oracle: "harness", Detail: "lastgersync.New: " + err.Error()}
		}
		n.vp = lastgersync.VerifProcessorOf(n.syncer)
		node = n
		return nil
	}
	stop := func() {
		w.Kill()
		node.cancel()
		w.Quiesce()
		closePrivateDB(node.rd, "db")
		node.vp.DB().Close()
		w.Revive()
	}
	if v := start(); v != nil {
		return v
	}
	go node.syncer.Start(node.ctx) //nolint:errcheck
	w.Quiesce()
	defer func() { stop() }()

	density := int(cfg["density"])
	fillD := func(r *Rand, density int) func(b *FBlock) {
		return func(b *FBlock) {
			present := c16Present(chain, chain.HeadNum())
			ev := c16Ev{None: true}
			if r.Bool(density) {
				if cfg["removals"] == 1 && len(present) > 0 && r.Bool(30) {
					idxs := make([]uint32, 0, len(present))
					for i := uint32(0); i < c16NGERs; i++ {
						if _, ok := present[i]; ok {
							idxs = append(idxs, i)
						}
					}
					ev = c16Ev{Idx: idxs[r.Intn(len(idxs))], Remove: true}
				} else {
					idx := uint32(r.Intn(c16NGERs))
					for t := 0; t < c16NGERs; t++ {
						if _, ok := present[idx]; !ok {
							break
						}
						idx = (idx + 1) % c16NGERs
					}
					if _, ok := present[idx]; !ok {
						ev = c16Ev{Idx: idx}
					}
				}
			}
			b.Payload = ev
			if ev.None || fep {
				return
			}
			ger := c16GER(ev.Idx)
			if ev.Remove {
				b.Logs = append(b.Logs, withTx(packLog(l2gerABI, addrL2GER, "UpdateRemovalHashChainValue", [32]byte(ger), [32]byte(genHash(r))), genHash(r)))
			} else {
				b.Logs = append(b.Logs, withTx(packLog(l2gerABI, addrL2GER, "UpdateHashChainValue", [32]byte(ger), [32]byte(genHash(r))), genHash(r)))
			}
		}
	}
	fill := func(r *Rand) func(b *FBlock) { return fillD(r, density) }

	type row struct {
		blk  uint64
		hash common.Hash
	}
	storedBlocks := func() ([]row, error) {
		rows, err := node.vp.DB().Query("SELECT num, hash FROM block ORDER BY num")
		if err != nil {
			return nil, err
		}
		defer rows.Close()
		out := []row{}
		for rows.Next() {
			var n uint64
			var h *string
			if err := rows.Scan(&n, &h); err != nil {
				return nil, err
			}
			r := row{blk: n}
			if h != nil {
				r.hash = common.HexToHash(*h)
			}
			out = append(out, r)
		}
		return out, nil
	}
	everDroppedRemoval := false
	// F9 classifier: the PP downloader only tracks blocks that carry events, so a fork that replaces
	// blocks at or below its download cursor none of which it had stored goes unnoticed.
	unnoticedFork := false
	examined := uint64(0)
	// the range whose logs the downloader holds and the last block of it whose header it has fetched: a replaced event
	// block whose header it still has to fetch is noticed (hash mismatch, the range is asked again)
	inflightTo, lastHdr := uint64(0), uint64(0)
	w.OnRPC = func(label, method, desc string, mode int, result any) {
		if label == "dl" && method == "FilterLogs" && mode == replyOK {
			if r, ok := result.([2]uint64); ok {
				if r[1] > examined {
					examined = r[1]
				}
				inflightTo, lastHdr = r[1], r[0]-1
			}
		}
		if label == "dl" && method == "HeaderByNumber" && mode == replyOK {
			var n uint64
			if k, _ := fmt.Sscanf(desc, "%d", &n); k == 1 && n > lastHdr && n <= inflightTo {
				lastHdr = n
			}
		}
		// the tip the downloader was told about: it will treat everything up to it as examined
		if label == "dl" && method == "HeaderByNumber" && desc == "latest" && mode == replyOK {
			if b, ok := result.(*FBlock); ok && b.Num() > examined {
				examined = b.Num()
			}
		}
	}
	classify := func(v *Violation) *Violation {
		if v == nil || v.Oracle == "harness" {
			return v
		}
		switch {
		case unnoticedFork:
			v.Sig = "c16/fork-of-unprocessed-blocks-unnoticed"
		case everDroppedRemoval:
			v.Sig = "c16/removal-in-dropped-block-not-undone"
		}
		return v
	}
	// safety: whatever the query returns was injected in a processed canonical block and not removed since
	safety := func(ctx string) *Violation {
		sb, err := storedBlocks()
		if err != nil {
			return &Violation{Oracle: "harness", Detail: err.Error()}
		}
		for _, s := range sb {
			if s.blk != 0 && !chain.IsCanonical(s.blk, s.hash) {
				return nil // a reorg is pending detection: the store legitimately still holds replaced blocks
			}
		}
		lp, err := node.syncer.GetLastProcessedBlock(bg)
		if err != nil {
			return &Violation{Oracle: "harness", Detail: err.Error()}
		}
		upTo := lp
		present := c16Present(chain, upTo)
		for x := uint32(0); x <= c16NGERs; x++ {
			res, err := node.syncer.GetFirstGERAfterL1InfoTreeIndex(bg, x)
			if err != nil {
				continue
			}
			rec.Stats.Inc("query_answers_checked")
			idx := res.L1InfoTreeIndex
			if idx < x {
				return &Violation{Oracle: "safety", Sig: "c16/index-below-x", Detail: fmt.Sprintf("%s: query for index >= %d returned index %d", ctx, x, idx)}
			}
			if idx >= c16NGERs || c16GER(idx) != res.GlobalExitRoot {
				return &Violation{Oracle: "safety", Sig: "c16/unknown-ger", Detail: fmt.Sprintf("%s: query(%d) returned GER %s with index %d, which is not that index's root", ctx, x, res.GlobalExitRoot.Hex(), idx)}
			}
			if _, ok := present[idx]; !ok {
				sig := "c16/returned-not-present"
				return &Violation{Oracle: "safety", Sig: sig, Detail: fmt.Sprintf("%s: query(%d) returned GER index %d, which is not injected-and-not-removed on the canonical chain up to the last processed block %d", ctx, x, idx, lp)}
			}
		}
		return nil
	}

	crashed := false
	maxHead := uint64(0)
	// crash images (as in C06): the node dies at the instant one of its two databases runs its k-th statement
	imgDir := filepath.Join(dir, "crashimg")
	imgTaken, imgArmed := false, ""
	takeImage := func() {
		os.RemoveAll(imgDir)
		_ = CopyDBFiles(storePath, filepath.Join(imgDir, filepath.Base(storePath)))
		_ = CopyDBFiles(rdPath, filepath.Join(imgDir, filepath.Base(rdPath)))
		imgTaken = true
	}
	gen := func(r *Rand) (Op, bool) {
		labels := w.ParkedLabels()
		wts := []int{int(cfg["w_mine"]), int(cfg["w_fork"]), int(cfg["w_fin"]), int(cfg["w_rel"]), int(cfg["w_time"]), int(cfg["w_rpcfault"]), int(cfg["w_crash"]), int(cfg["w_l1"]), int(cfg["w_crashat"])}
		if imgArmed != "" {
			wts[8] = 0
		}
		if len(labels) == 0 {
			wts[3], wts[5] = 0, 0
			wts[4] += 30
		}
		if chain.HeadNum() <= floor() {
			wts[1] = 0
		}
		switch r.Pick(wts) {
		case 0:
			n := 1
			if r.Bool(45) {
				n = r.Range(2, 6)
			}
			if cfg["big_jumps"] == 1 && r.Bool(12) {
				// "however many L2 blocks are produced between two polls": hundreds at once (node was down / poll stalled)
				n = r.Range(90, 320)
			}
			return Op{K: "mine", A: []int64{int64(r.U64() >> 1), int64(n)}}, true
		case 1:
			maxDepth := int(chain.HeadNum() - floor())
			d := 1 + r.Intn(min(maxDepth, 5))
			return Op{K: "fork", A: []int64{int64(r.U64() >> 1), int64(d), int64(r.Range(0, d+2))}}, true
		case 2:
			return Op{K: "fin", A: []int64{int64(r.Range(0, 4)), int64(r.Range(0, 3))}}, true
		case 3:
			return Op{K: "rel", S: labels[r.Intn(len(labels))], A: []int64{0}}, true
		case 4:
			ms := []int64{cfg["wait_ms"], cfg["retry_ms"], cfg["reorg_ms"], 100, 3000}[r.Intn(5)]
			return Op{K: "time", A: []int64{ms}}, true
		case 5:
			fm := int64(1 + r.Intn(2))
			if r.Bool(25) {
				fm = replyDeadline
			}
			return Op{K: "rel", S: labels[r.Intn(len(labels))], A: []int64{fm}}, true
		case 6:
			return Op{K: "crash"}, true
		case 8:
			which, k := int64(r.Intn(2)), 1+r.Intn(8)
			if r.Bool(30) {
				k = 1 + r.Intn(40)
			}
			if r.Bool(35) {
				which, k = 2, 1+r.Intn(3) // at the k-th DELETE of the syncer's database: a rewind in progress
			}
			return Op{K: "crashat", A: []int64{which, int64(k)}}, true
		default:
			return Op{K: "l1sync", A: []int64{int64(r.Range(1, 6))}}, true
		}
	}
	apply := func(op Op) *Violation {
		rec.Stats.Inc("steps")
		if imgTaken {
			// the node died when the image was taken: only what both database files held at that instant survives
			imgTaken = false
			DisarmFault(imgArmed)
			imgArmed = ""
			stop()
			_ = CopyDBFiles(filepath.Join(imgDir, filepath.Base(storePath)), storePath)
			_ = CopyDBFiles(filepath.Join(imgDir, filepath.Base(rdPath)), rdPath)
			crashed = true
			rec.Stats.Inc("crash_restart")
			rec.Stats.Inc("crash_at_statement_image")
			if v := start(); v != nil {
				return v
			}
			examined, _ = node.syncer.GetLastProcessedBlock(bg)
			go node.syncer.Start(node.ctx) //nolint:errcheck
			w.Quiesce()
			rec.Step("XI")
		}
		switch op.K {
		case "crashat":
			if imgArmed == "" {
				imgArmed = storePath
				if op.Arg(0) == 1 {
					imgArmed = rdPath
				}
				ArmFault(imgArmed, &FaultPlan{YieldAt: int(op.Arg(1)), Yield: takeImage, YieldOnDelete: op.Arg(0) == 2})
				rec.Step("XA")
			}
		case "mine":
			r := NewRand(uint64(op.Arg(0)))
			chain.snapshotPrev()
			d := density
			if op.Arg(1) >= 90 {
				d = 1 + int(uint64(op.Arg(0))%3) // sparse events: long empty stretches inside one catch-up
			}
			for i := int64(0); i < op.Arg(1); i++ {
				chain.Mine(r.U64(), fillD(r, d))
			}
			rec.Stats.Add("blocks_mined", op.Arg(1))
			if op.Arg(1) >= 90 {
				rec.Stats.Inc("tip_jumps_over_90_blocks")
			}
			rec.Step(fmt.Sprintf("M%d", op.Arg(1)))
		case "fork":
			d := uint64(op.Arg(1))
			if chain.HeadNum() <= floor() {
				return nil
			}
			if d > chain.HeadNum()-floor() {
				d = chain.HeadNum() - floor()
			}
			r := NewRand(uint64(op.Arg(0)))
			chain.snapshotPrev()
			forkPoint := chain.HeadNum() - d + 1
			cursor := examined
			for _, p := range w.Parked() {
				if p.label == "dl" && p.method == "FilterLogs" {
					var a, b uint64
					if n, _ := fmt.Sscanf(p.desc, "%d..%d", &a, &b); n == 2 && b > cursor {
						cursor = b
					}
				}
			}
			if sb, err := storedBlocks(); err == nil && forkPoint <= cursor {
				any := false
				for _, s := range sb {
					if s.blk >= forkPoint {
						any = true
					}
				}
				willNotice := false
				for n := max(forkPoint, lastHdr+1); n <= inflightTo && n <= chain.HeadNum(); n++ {
					if ev, ok := chain.Canon[n].Payload.(c16Ev); ok && !ev.None {
						willNotice = true // its header is still to be fetched and will not match the logs
					}
				}
				if willNotice && chain.HeadNum()-d+uint64(op.Arg(2)) < inflightTo {
					// the fork leaves the chain shorter than the range the downloader holds logs of: it notices the
					// mismatch and asks for the SAME range again, gets what exists of it, and then moves past the
					// range's end - the blocks that are mined later inside it are never examined (F9's mechanism)
					willNotice = false
					rec.Stats.Inc("forks_below_cursor_that_shorten_the_chain_inside_the_range_held")
				}
				if !any && willNotice {
					rec.Stats.Inc("forks_below_cursor_noticed_by_header_mismatch")
				}
				if !any && !willNotice {
					unnoticedFork = true
					rec.Stats.Inc("forks_below_cursor_without_stored_block")
				}
			}
			for _, b := range chain.Rewind(chain.HeadNum() - d) {
				if ev, ok := b.Payload.(c16Ev); ok && ev.Remove {
					everDroppedRemoval = true
				}
			}
			for i := int64(0); i < op.Arg(2); i++ {
				chain.Mine(r.U64(), fill(r))
			}
			rec.Stats.Inc("forks")
			rec.Step(fmt.Sprintf("K%d.%d", d, op.Arg(2)))
		case "fin":
			chain.snapshotPrev()
			chain.Finalized = min(chain.Finalized+uint64(op.Arg(0)), chain.HeadNum())
			chain.Safe = min(max(chain.Safe, chain.Finalized)+uint64(op.Arg(1)), chain.HeadNum())
			rec.Step("F")
		case "rel":
			p := w.FirstParked(op.S)
			if p == nil {
				return nil
			}
			m := int(op.Arg(0))
			if m == replyNotFound && !(p.method == "HeaderByNumber" && p.desc[0] >= '0' && p.desc[0] <= '9') {
				m = replyTransient
			}
			if m == replyDeadline && p.method != "HeaderByNumber" && p.method != "FilterLogs" {
				m = replyTransient
			}
			if m != replyOK {
				rec.Stats.Inc(fmt.Sprintf("rpc_fault_%d_%s", m, p.method))
			}
			rec.Step("r" + p.label + p.method[:1] + fmt.Sprint(m))
			w.Release(p, m)
		case "time":
			w.Advance(time.Duration(op.Arg(0)) * time.Millisecond)
			rec.Step("T")
		case "crash":
			if imgArmed != "" {
				DisarmFault(imgArmed)
				imgArmed, imgTaken = "", false
			}
			stop()
			crashed = true
			rec.Stats.Inc("crash_restart")
			if v := start(); v != nil {
				return v
			}
			examined, _ = node.syncer.GetLastProcessedBlock(bg)
			go node.syncer.Start(node.ctx) //nolint:errcheck
			w.Quiesce()
			rec.Step("X")
		case "l1sync":
			l1.mu.Lock()
			l1.known = min(l1.known+int(op.Arg(0)), c16NGERs)
			l1.mu.Unlock()
			rec.Step("L")
		}
		maxHead = max(maxHead, chain.HeadNum())
		// the harness's own reads are not statements of the node: they do not count towards an armed crash point
		harnessPlan := DisarmFault(storePath)
		if v := safety("after " + op.String()); v != nil {
			return classify(v)
		}
		lp, _ := node.syncer.GetLastProcessedBlock(bg)
		if harnessPlan != nil {
			ArmFault(storePath, harnessPlan)
		}
		rec.Event("after %s: parked=[%s] lp=%d head=%d fin=%d known=%d", op, w.ParkedDigest(), lp, chain.HeadNum(), chain.Finalized, l1.known)
		rec.State(fmt.Sprintf("%d:%d:%s", int64(chain.HeadNum())-int64(lp), len(w.Parked()), w.ParkedDigest()))
		return nil
	}
	for {
		op, ok := sc.Next(gen)
		if !ok {
			break
		}
		if v := apply(op); v != nil {
			return v
		}
	}
	_ = crashed
	// drain: L1 info fully synced, chain grows past its old height, then stops; faults stop
	l1.mu.Lock()
	l1.known = c16NGERs
	l1.mu.Unlock()
	{
		r := NewRand(tr.Seed ^ 0xc16)
		chain.snapshotPrev()
		for chain.HeadNum() <= maxHead+1 {
			chain.Mine(r.U64(), func(b *FBlock) { b.Payload = c16Ev{None: true} })
		}
	}
	// completeness: whenever an injected, not removed root with index >= X exists, the query returns one
	complete := func() (bool, string) {
		sb, err := storedBlocks()
		if err != nil {
			return false, err.Error()
		}
		for _, s := range sb {
			if s.blk != 0 && !chain.IsCanonical(s.blk, s.hash) {
				return false, fmt.Sprintf("stored block %d is not canonical", s.blk)
			}
		}
		present := c16Present(chain, chain.HeadNum())
		for x := uint32(0); x <= c16NGERs; x++ {
			exists := false
			for idx := range present {
				if idx >= x {
					exists = true
				}
			}
			if !exists {
				continue
			}
			if _, err := node.syncer.GetFirstGERAfterL1InfoTreeIndex(bg, x); err != nil {
				best := uint32(0)
				for idx := range present {
					if idx >= x && idx >= best {
						best = idx
					}
				}
				return false, fmt.Sprintf("query(%d) answers %v although GER index %d was injected in canonical block %d and never removed", x, err, best, present[best])
			}
		}
		return true, ""
	}
	cap := 500 + 50*int(chain.HeadNum())
	rr := 0
	// fixed point (as in C06): last processed block unchanged for 420 steps on a static chain = nothing will change
	lastLP, unchanged := uint64(0), 0
	for i := 0; i < cap; i++ {
		if i%6 == 0 {
			if ok, _ := complete(); ok {
				break
			}
			if lp, err := node.syncer.GetLastProcessedBlock(bg); err == nil {
				if lp == lastLP {
					unchanged += 6
				} else {
					lastLP, unchanged = lp, 0
				}
				if unchanged >= 420 {
					rec.Stats.Inc("drain_stopped_at_fixed_point")
					break
				}
			}
		}
		ps := w.Parked()
		if len(ps) > 0 {
			w.Release(ps[rr%len(ps)], replyOK)
			rr++
		} else {
			w.Advance(time.Duration(min(cfg["wait_ms"], cfg["reorg_ms"])) * time.Millisecond)
		}
		rec.Stats.Inc("drain_steps")
	}
	if v := safety("after drain"); v != nil {
		return classify(v)
	}
	if ok, why := complete(); !ok {
		return classify(&Violation{Oracle: "completeness", Sig: "c16/missing-injected-ger", Detail: fmt.Sprintf("after the chain stopped and %d fair scheduler steps: %s (mode %s)", cap, why, mode)})
	}
	if len(c16Present(chain, chain.HeadNum())) > 0 {
		rec.Stats.Inc("runs_with_present_gers")
	}
	return nil
}

func init() {
	register(&PropSpec{ID: "C16", Engine: "syncsim", Config: C16Config, Run: RunC16,
		OpLimit:    func(cfg map[string]int64) int { return int(cfg["ops"]) },
		Nontrivial: func(s Stats) bool { return s["runs_with_present_gers"] > 0 && s["query_answers_checked"] > 0 }})
	_ = ethtypes.Log{}
}

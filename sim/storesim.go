package sim

// storesim: direct-call engine over the three real processors. No clock, no
// goroutines: the "schedule" is the order of {process next block, reorg,
// restart, storage fault, mid-transaction crash image, twin check}.
// Serves C04, C07, C08 (and, with the halting ops, C14).

import (
	"fmt"
	"os"
	"path/filepath"
	"sort"
	"strings"

	"github.com/agglayer/aggkit/bridgesync"
	"github.com/agglayer/aggkit/lastgersync"
	"github.com/ethereum/go-ethereum/common"
)

// storeWorld bundles one real store, its reference model and helpers.
type storeWorld struct {
	kind  string
	dir   string
	store Store
	bm    *BridgeModel
	lm    *L1Model
	gm    *GERModel
	rec   *Recorder
	cfg   map[string]int64
	chk   *Rand // PRNG for sampling inside oracles: derived from the run seed, never from the op stream

	legacy []common.Address
	// history of removal events ever committed by the store (also in blocks
	// dropped by a later reorg): used only to classify known findings.
	removedGERs   map[common.Hash]bool
	removedLegacy map[common.Address]bool
	twinN         int
	// rows as the recorded mechanism (F6/F7) leaves them: removal events delete rows of earlier
	// blocks, a reorg only deletes rows of the dropped blocks. Used ONLY to classify known findings.
	f6Rows []GERRow
	f7Rows []f7Row
}

type f7Row struct {
	Block  uint64
	Legacy common.Address
}

func newStoreWorld(kind, dir string, cfg map[string]int64, rec *Recorder, seed uint64) (*storeWorld, error) {
	w := &storeWorld{kind: kind, dir: dir, cfg: cfg, rec: rec, chk: NewRand(seed ^ 0xabcdef),
		removedGERs: map[common.Hash]bool{}, removedLegacy: map[common.Address]bool{}}
	for i := 0; i < 3; i++ {
		w.legacy = append(w.legacy, common.BytesToAddress([]byte{0xaa, byte(i + 1)}))
	}
	path := filepath.Join(dir, kind+".sqlite")
	switch kind {
	case "bridge":
		w.store = NewBridgeStore(path)
		w.bm = &BridgeModel{}
	case "l1info":
		w.store = NewL1Store(path)
		w.lm = NewL1Model()
	case "lastger":
		w.store = NewGERStore(path)
		w.gm = &GERModel{}
	default:
		return nil, fmt.Errorf("unknown store kind %s", kind)
	}
	return w, w.store.Open()
}

func (w *storeWorld) close() {
	w.store.Close()
}

func (w *storeWorld) blocks() []MBlock {
	switch w.kind {
	case "bridge":
		return w.bm.Blocks
	case "l1info":
		return w.lm.Blocks
	default:
		return w.gm.Blocks
	}
}

func (w *storeWorld) lastBlock() uint64 {
	b := w.blocks()
	if len(b) == 0 {
		return 0
	}
	return b[len(b)-1].Num
}

func (w *storeWorld) genBlock(seed uint64, gap int, wrongV2 bool) MBlock {
	maxEv := int(w.cfg["max_events"])
	switch w.kind {
	case "bridge":
		return GenBridgeBlock(w.bm, seed, gap, maxEv, w.legacy, w.cfg["no_removals"] == 0)
	case "l1info":
		return GenL1Block(w.lm, seed, gap, maxEv, wrongV2)
	default:
		return GenGERBlock(w.gm, seed, gap, w.cfg["no_removals"] == 0)
	}
}

func (w *storeWorld) applyModel(b MBlock) {
	switch w.kind {
	case "bridge":
		w.bm.Apply(b)
		for _, e := range b.Events {
			ev := e.(bridgesync.Event)
			if rl := ev.RemoveLegacyToken; rl != nil {
				w.removedLegacy[rl.LegacyTokenAddress] = true
				k := w.f7Rows[:0]
				for _, r := range w.f7Rows {
					if r.Legacy != rl.LegacyTokenAddress {
						k = append(k, r)
					}
				}
				w.f7Rows = k
			}
			if lm := ev.LegacyTokenMigration; lm != nil {
				w.f7Rows = append(w.f7Rows, f7Row{b.Num, lm.LegacyTokenAddress})
			}
		}
	case "l1info":
		w.lm.Apply(b)
	default:
		w.gm.Apply(b)
		for _, e := range b.Events {
			ev := e.(*lastgersync.Event)
			switch {
			case ev.GERInfo != nil:
				w.f6Rows = append(w.f6Rows, GERRow{b.Num, ev.GERInfo.GlobalExitRoot, ev.GERInfo.L1InfoTreeIndex})
			case ev.GEREvent != nil && !ev.GEREvent.IsRemove:
				w.f6Rows = append(w.f6Rows, GERRow{b.Num, ev.GEREvent.GlobalExitRoot, ev.GEREvent.L1InfoTreeIndex})
			case ev.GEREvent != nil && ev.GEREvent.IsRemove:
				w.removedGERs[ev.GEREvent.GlobalExitRoot] = true
				k := w.f6Rows[:0]
				for _, r := range w.f6Rows {
					if r.GER != ev.GEREvent.GlobalExitRoot {
						k = append(k, r)
					}
				}
				w.f6Rows = k
			}
		}
	}
}

func (w *storeWorld) rewindModel(first uint64) int {
	k6 := w.f6Rows[:0]
	for _, r := range w.f6Rows {
		if r.Block < first {
			k6 = append(k6, r)
		}
	}
	w.f6Rows = k6
	k7 := w.f7Rows[:0]
	for _, r := range w.f7Rows {
		if r.Block < first {
			k7 = append(k7, r)
		}
	}
	w.f7Rows = k7
	switch w.kind {
	case "bridge":
		return w.bm.Rewind(first)
	case "l1info":
		return w.lm.Rewind(first)
	default:
		return w.gm.Rewind(first)
	}
}

func (w *storeWorld) hint(heavy bool) *DumpHint {
	h := &DumpHint{MaxBlock: w.lastBlock(), Heavy: heavy, RollupIDs: []uint32{1, 2, 3, 4, 7}}
	switch w.kind {
	case "bridge":
		h.MaxIndex = w.bm.DepositCount()
		for i, r := range w.bm.Tree.Roots {
			if i%3 == 0 {
				h.Hashes = append(h.Hashes, r)
			}
		}
	case "l1info":
		h.MaxIndex = uint32(len(w.lm.Leaves))
	default:
		h.MaxIndex = w.gm.MaxIndex()
	}
	h.Hashes = append(h.Hashes, common.HexToHash("0xdead"))
	return h
}

func (w *storeWorld) checkRef(heavy bool) error {
	switch w.kind {
	case "bridge":
		return w.store.(*BridgeStore).CheckRef(w.bm, heavy, w.chk)
	case "l1info":
		return w.store.(*L1Store).CheckRef(w.lm, heavy, w.chk)
	default:
		return w.store.(*GERStore).CheckRef(w.gm)
	}
}

// rawDigest dumps every user table except the content-addressed node tables
// (rht rows are never deleted by design and shared between tree versions).
func rawDigest(s Store) (string, error) {
	var dbh interface {
		Query(string, ...any) (rowsIface, error)
	}
	_ = dbh
	var sb strings.Builder
	db := storeDB(s)
	rows, err := db.Query(`SELECT name FROM sqlite_master WHERE type='table' ORDER BY name`)
	if err != nil {
		return "", err
	}
	var tables []string
	for rows.Next() {
		var n string
		if err := rows.Scan(&n); err != nil {
			rows.Close()
			return "", err
		}
		if strings.HasPrefix(n, "sqlite_") || n == "gorp_migrations" || strings.HasSuffix(n, "rht") {
			continue
		}
		tables = append(tables, n)
	}
	rows.Close()
	for _, t := range tables {
		r, err := db.Query("SELECT * FROM " + t + " ORDER BY rowid")
		if err != nil {
			return "", err
		}
		cols, _ := r.Columns()
		fmt.Fprintf(&sb, "## %s %v\n", t, cols)
		for r.Next() {
			vals := make([]any, len(cols))
			ptrs := make([]any, len(cols))
			for i := range vals {
				ptrs[i] = &vals[i]
			}
			if err := r.Scan(ptrs...); err != nil {
				r.Close()
				return "", err
			}
			for _, v := range vals {
				switch x := v.(type) {
				case []byte:
					fmt.Fprintf(&sb, "%x|", x)
				default:
					fmt.Fprintf(&sb, "%v|", x)
				}
			}
			sb.WriteByte('\n')
		}
		r.Close()
	}
	return sb.String(), nil
}

type rowsIface interface{}

// twinCheck builds a fresh store that only ever processed the surviving
// blocks and compares every query answer (C04 oracle, also the end state of C07).
func (w *storeWorld) twinCheck(heavy bool) *Violation {
	w.twinN++
	tdir := filepath.Join(w.dir, fmt.Sprintf("twin%d", w.twinN))
	os.MkdirAll(tdir, 0o755)
	defer os.RemoveAll(tdir)
	var twin Store
	path := filepath.Join(tdir, "twin.sqlite")
	switch w.kind {
	case "bridge":
		twin = NewBridgeStore(path)
	case "l1info":
		twin = NewL1Store(path)
	default:
		twin = NewGERStore(path)
	}
	if err := twin.Open(); err != nil {
		return &Violation{Oracle: "harness", Detail: "twin open: " + err.Error()}
	}
	defer twin.Close()
	for _, b := range w.blocks() {
		if err := twin.ProcessBlock(b); err != nil {
			return &Violation{Oracle: "harness", Detail: fmt.Sprintf("twin ProcessBlock(%d): %v", b.Num, err)}
		}
	}
	h := w.hint(heavy)
	got, want := w.store.Dump(h), twin.Dump(h)
	w.rec.Stats.Inc("twin_checks")
	w.rec.Stats.Add("twin_queries", int64(strings.Count(want, "\n")))
	if got == want {
		return nil
	}
	gl, wl := strings.Split(got, "\n"), strings.Split(want, "\n")
	names := map[string]bool{}
	first := ""
	for i := 0; i < len(gl) || i < len(wl); i++ {
		var g, x string
		if i < len(gl) {
			g = gl[i]
		}
		if i < len(wl) {
			x = wl[i]
		}
		if g != x {
			n := g
			if n == "" {
				n = x
			}
			if k := strings.IndexAny(n, "( "); k > 0 {
				n = n[:k]
			}
			names[n] = true
			if first == "" {
				first = fmt.Sprintf("store: %.300s\n fresh: %.300s", g, x)
			}
		}
	}
	ns := make([]string, 0, len(names))
	for n := range names {
		ns = append(ns, n)
	}
	sort.Strings(ns)
	sig := w.kind + "/twin:" + strings.Join(ns, ",")
	// classification of the two removal mechanisms (known findings): the store
	// differs from the fresh twin exactly by rows deleted by a removal event
	// that lived in a block dropped by a reorg.
	if cls := w.classifyRemoval(ns); cls != "" {
		sig = cls
	}
	return &Violation{Oracle: "twin", Sig: sig,
		Detail: fmt.Sprintf("%s store answers differ from a fresh store that only processed the %d surviving blocks; differing queries %v; first difference:\n %s", w.kind, len(w.blocks()), ns, first)}
}

// classifyRemoval returns a specific signature when the only differing
// queries are the ones fed by a table from which removal events delete rows
// of earlier blocks, and the store's content equals "canonical content minus
// rows removed by an event in a dropped block".
func (w *storeWorld) classifyRemoval(differing []string) string {
	switch w.kind {
	case "lastger":
		// the store must show exactly what the recorded mechanism leaves behind, and that must differ
		// from the canonical content
		exp := w.f6Rows
		if len(exp) == len(w.gm.Present()) {
			same := true
			for i, r := range w.gm.Present() {
				if exp[i] != r {
					same = false
				}
			}
			if same {
				return ""
			}
		}
		for x := uint32(0); x <= w.gm.MaxIndex()+2; x++ {
			var want *GERRow
			for i := range exp {
				if exp[i].Index >= x && (want == nil || exp[i].Index < want.Index) {
					want = &exp[i]
				}
			}
			got, err := w.store.(*GERStore).F.GetFirstGERAfterL1InfoTreeIndex(bg, x)
			if (want == nil) != (err != nil) {
				return ""
			}
			if want != nil && (got.GlobalExitRoot != want.GER || got.L1InfoTreeIndex != want.Index) {
				return ""
			}
		}
		return "lastger/removal-in-dropped-block-not-undone"
	case "bridge":
		for _, n := range differing {
			if n != "GetLegacyTokenMigrations" {
				return ""
			}
		}
		// the listing must hold exactly the rows the recorded mechanism leaves behind
		canonical := 0
		for _, b := range w.bm.Blocks {
			for _, e := range b.Events {
				if e.(bridgesync.Event).LegacyTokenMigration != nil {
					canonical++
				}
			}
		}
		_, n, err := w.store.(*BridgeStore).F.GetLegacyTokenMigrations(bg, 1, 100000)
		if err == nil && n == len(w.f7Rows) && n != canonical {
			return "bridge/legacy-removal-in-dropped-block-not-undone"
		}
	}
	return ""
}

// refCheckLegacy: reference content of the legacy migration listing (canonical chain).
func (w *storeWorld) stateDigest() string {
	switch w.kind {
	case "bridge":
		return fmt.Sprintf("b:%d:%d", len(w.bm.Blocks), w.bm.DepositCount())
	case "l1info":
		return fmt.Sprintf("l:%d:%d:%d", len(w.lm.Blocks), len(w.lm.Leaves), len(w.lm.VBs))
	default:
		return fmt.Sprintf("g:%d:%d", len(w.gm.Blocks), len(w.gm.Present()))
	}
}

package sim

// C06: reorgs of processed blocks are detected; the node converges to the
// canonical chain. Engine: syncsim with the real L1 info tree syncer
// (l1infotreesync.New: real processor, real appenders, real downloader and
// driver) and the real ReorgDetector, against a forking fake chain, with
// crashes and restarts in both Start/Subscribe serialisations.

import (
	"context"
	"database/sql"
	"fmt"
	"os"
	"path/filepath"
	"runtime/pprof"
	"sort"
	"sync"
	"time"

	cfgtypes "github.com/agglayer/aggkit/config/types"
	"github.com/agglayer/aggkit/l1infotreesync"
	"github.com/agglayer/aggkit/reorgdetector"
	aggkittypes "github.com/agglayer/aggkit/types"
	"github.com/ethereum/go-ethereum/common"
)

func C06Config(prop string, r *Rand, tier string) map[string]int64 {
	c := map[string]int64{}
	chunks := []int64{1, 2, 3, 5, 10, 50}
	c["chunk"] = chunks[r.Intn(len(chunks))]
	c["wait_ms"] = int64([]int{100, 500, 2000}[r.Intn(3)])
	c["retry_ms"] = int64([]int{50, 500}[r.Intn(2)])
	c["reorg_ms"] = int64([]int{500, 2000, 10000}[r.Intn(3)])
	c["sync_tag"] = 0                           // the syncer follows latest
	c["detector_tag"] = int64(1 + r.Intn(2))    // Safe / Finalized
	if r.Bool(15) {
		c["sync_tag"] = int64(1 + r.Intn(2))
	}
	c["ops"] = int64(r.Range(30, 140))
	if tier == "thorough" {
		c["ops"] = int64(r.Range(40, 320))
	}
	c["density"] = int64(r.Range(25, 80))
	c["w_mine"] = int64(r.Range(6, 20))
	c["w_fork"] = int64(r.Range(5, 22))
	c["w_fin"] = int64(r.Range(2, 12))
	c["w_rel"] = 50
	c["w_time"] = int64(r.Range(8, 25))
	c["w_rpcfault"] = int64(r.Range(0, 8))
	c["w_crash"] = int64(r.Range(0, 4))
	c["w_crashat"] = int64(r.Range(0, 5))
	// the syncer's store refuses every write for a while (full disk): the driver keeps retrying the block it
	// holds while the downloader, the chain and the detector go on
	c["w_diskfull"] = 0
	if r.Bool(35) {
		c["w_diskfull"] = int64(r.Range(1, 4))
	}
	c["sub_first"] = 0 // restart order: 0 = Start then Subscribe; 1 = Subscribe then Start (both exist in cmd/run.go's race)
	if r.Bool(30) {
		c["sub_first"] = 1
	}
	if r.Bool(15) {
		c["w_rpcfault"], c["w_crash"], c["w_crashat"], c["w_diskfull"] = 0, 0, 0, 0
	}
	// a second subscriber of the same detector (as the L1 bridge syncer next to the L1 info syncer in the real node):
	// a stub syncer that tracks blocks at its own pace and rewinds when told
	c["second_sub"] = int64(r.Intn(2))
	c["w_track2"] = int64(r.Range(5, 18))
	return c
}

// rdProxy is the real detector; it only records what the driver asks it to track.
type rdProxy struct {
	*reorgdetector.ReorgDetector
	onTrack func(num uint64, hash common.Hash)
}

func (p *rdProxy) AddBlockToTrack(ctx context.Context, id string, num uint64, hash common.Hash) error {
	if p.onTrack != nil {
		p.onTrack(num, hash)
	}
	return p.ReorgDetector.AddBlockToTrack(ctx, id, num, hash)
}

type c06Node struct {
	ctx    context.Context
	cancel context.CancelFunc
	rd     *reorgdetector.ReorgDetector
	syncer *l1infotreesync.L1InfoTreeSync
	store  *L1Store
}

func RunC06(prop string, tr *Trace, sc *Script, rec *Recorder, scratch string) (viol *Violation) {
	InstallSQLiteHooks()
	perr := InBubble(workerT, func() {
		defer func() {
			if r := recover(); r != nil {
				viol = &Violation{Oracle: "harness", Detail: fmt.Sprintf("scheduler panic: %v", r)}
			}
		}()
		viol = runC06(tr, sc, rec, scratch)
	})
	if perr != nil && viol == nil {
		viol = &Violation{Oracle: "harness", Detail: fmt.Sprintf("bubble panic: %v", perr)}
	}
	return viol
}

type storedBlock struct {
	Num  uint64
	Hash common.Hash
}

func runC06(tr *Trace, sc *Script, rec *Recorder, scratch string) *Violation {
	cfg := tr.Cfg
	dir := filepath.Join(scratch, fmt.Sprintf("c06-%d-%d", tr.Seed, tr.Run))
	os.RemoveAll(dir)
	os.MkdirAll(dir, 0o755)
	defer os.RemoveAll(dir)
	w := NewWorld(rec)
	chain := NewChain(1337, tr.Seed)
	gen1 := NewL1Gen()
	syncTag := finalityTags[cfg["sync_tag"]%3]
	detTag := finalityTags[cfg["detector_tag"]%3]
	storePath := filepath.Join(dir, "l1info.sqlite")
	rdPath := filepath.Join(dir, "rd.sqlite")
	var node *c06Node

	// Blocks at or below a pointer that any component treats as final are never replaced: the
	// detector stops tracking blocks at or below its tag, and the downloader treats as finalized the
	// "more final" of the syncer's and the detector's tags (sync.NewEVMDownloader).
	floor := func() uint64 {
		if detTag == aggkittypes.SafeBlock || syncTag == aggkittypes.SafeBlock {
			return max(chain.Safe, chain.Finalized)
		}
		return chain.Finalized
	}

	// repeatDelivered[n]: the driver was handed block number n again (different hash) while n was stored
	repeatDelivered := map[uint64]bool{}
	var nodeRef **c06Node
	// pending: blocks the driver has handed to the detector (AddBlockToTrack) that are not, or not yet, in its store.
	// The detector's table calls these "processed": when one of them is replaced a rewind is what the property asks
	// for, whether or not the store write ever succeeded (disk full, crash between the two databases).
	pending := map[storedBlock]bool{}
	// answered: tracked blocks whose replacement has already been answered by a rewind to at or below them; a row the
	// detector keeps for such a block justifies nothing further (each replacement justifies one rewind)
	answered := map[storedBlock]bool{}
	onTrack := func(num uint64, hash common.Hash) {
		if nodeRef == nil || *nodeRef == nil {
			return
		}
		pending[storedBlock{Num: num, Hash: hash}] = true
		delete(answered, storedBlock{Num: num, Hash: hash})
		if !chain.IsCanonical(num, hash) {
			// the driver hands over a block that was replaced while it waited (in the download buffer or in a retry)
			rec.Stats.Inc("blocks_handed_over_after_they_were_replaced")
			if num <= chain.Finalized {
				rec.Stats.Inc("blocks_handed_over_after_they_were_replaced_below_finality")
			}
		}
		var h *string
		if err := (*nodeRef).store.P.DB().QueryRow("SELECT hash FROM block WHERE num = ?", num).Scan(&h); err == nil && h != nil && common.HexToHash(*h) != hash {
			repeatDelivered[num] = true
		}
	}
	// the second subscriber: what it has stored (durable: survives restarts) and how often it was told to rewind
	var sub2mu sync.Mutex
	var sub2stored, sub2image []storedBlock
	sub2on := cfg["second_sub"] == 1
	subscribe2 := func(ctx context.Context, rd *reorgdetector.ReorgDetector) *Violation {
		if !sub2on {
			return nil
		}
		sub, err := rd.Subscribe("second")
		if err != nil {
			return &Violation{Oracle: "harness", Detail: "Subscribe(second): " + err.Error()}
		}
		go func() {
			for {
				select {
				case <-ctx.Done():
					return
				case first := <-sub.ReorgedBlock:
					sub2mu.Lock()
					k := 0
					for _, sb := range sub2stored {
						if sb.Num < first {
							sub2stored[k] = sb
							k++
						}
					}
					sub2stored = sub2stored[:k]
					sub2mu.Unlock()
					rec.Stats.Inc("second_subscriber_rewinds")
					select {
					case sub.ReorgProcessed <- true:
					case <-ctx.Done():
						return
					}
				}
			}
		}()
		return nil
	}
	reorgEventsAtStart := int64(0)
	start := func(subFirst bool) *Violation {
		w.BeginSetup()
		defer w.EndSetup()
		ctx, cancel := context.WithCancel(context.Background())
		n := &c06Node{ctx: ctx, cancel: cancel}
		var err error
		n.rd, err = reorgdetector.New(&FakeClient{W: w, C: chain, Label: "rd", Epoch: w.Epoch}, reorgdetector.Config{DBPath: rdPath,
			CheckReorgsInterval: cfgtypes.NewDuration(time.Duration(cfg["reorg_ms"]) * time.Millisecond), FinalizedBlock: detTag}, reorgdetector.L1)
		if err != nil {
			return &Violation{Oracle: "harness", Detail: "reorgdetector.New: " + err.Error()}
		}
		mk := func() error {
			n.syncer, err = l1infotreesync.New(ctx, storePath, addrGER, addrRM, uint64(cfg["chunk"]), syncTag, &rdProxy{ReorgDetector: n.rd, onTrack: onTrack},
				&FakeClient{W: w, C: chain, Label: "dl", Epoch: w.Epoch}, time.Duration(cfg["wait_ms"])*time.Millisecond, 0,
				time.Duration(cfg["retry_ms"])*time.Millisecond, -1, l1infotreesync.FlagAllowWrongContractsAddrs, detTag, true)
			return err
		}
		if subFirst {
			if err := mk(); err != nil {
				return &Violation{Oracle: "harness", Detail: "l1infotreesync.New: " + err.Error()}
			}
			if v := subscribe2(ctx, n.rd); v != nil {
				return v
			}
			if err := n.rd.Start(ctx); err != nil {
				return &Violation{Oracle: "harness", Detail: "rd.Start: " + err.Error()}
			}
		} else {
			if err := n.rd.Start(ctx); err != nil {
				return &Violation{Oracle: "harness", Detail: "rd.Start: " + err.Error()}
			}
			if err := mk(); err != nil {
				return &Violation{Oracle: "harness", Detail: "l1infotreesync.New: " + err.Error()}
			}
			if v := subscribe2(ctx, n.rd); v != nil {
				return v
			}
		}
		vp := l1infotreesync.VerifProcessorOf(n.syncer)
		n.store = &L1Store{path: storePath, P: vp, F: n.syncer}
		node = n
		// what a dead incarnation answered is not durable: the detector acts on the rows its table still holds
		for k := range answered {
			delete(answered, k)
		}
		reorgEventsAtStart = 0
		if db, err := sql.Open("sqlite3", "file:"+rdPath+"?mode=ro"); err == nil {
			_ = db.QueryRow("SELECT COALESCE(MAX(rowid),0) FROM reorg_event").Scan(&reorgEventsAtStart)
			db.Close()
		}
		return nil
	}
	stop := func() {
		w.Kill()
		node.cancel()
		w.Quiesce()
		closePrivateDB(node.rd, "db")
		node.store.P.DB().Close()
		w.Revive()
	}
	nodeRef = &node
	// Mechanism of recorded finding F20: the downloader asks for a range again when the header of one of its event
	// blocks no longer matches the logs it holds (a reorg in between); after MaxRetryCountBlockHashMismatch = 5 such
	// repeats in a row it returns nil, which its caller takes for "no events in this range" and moves on - also past
	// finalized blocks. Counted here: consecutive answers to the SAME range in which a header differed from the
	// chain the logs were taken from.
	type rangeKey struct{ a, b uint64 }
	var curRange rangeKey
	rangeHashes := map[uint64]common.Hash{}
	mismatchesInARow := 0
	var gaveUp []rangeKey
	mismatchSeen := false
	w.OnRPC = func(label, method, desc string, mode int, result any) {
		if label != "dl" {
			return
		}
		switch method {
		case "FilterLogs":
			r, ok := result.([2]uint64)
			if !ok || mode != replyOK {
				return
			}
			k := rangeKey{r[0], r[1]}
			if k != curRange {
				curRange, mismatchesInARow = k, 0
			} else if !mismatchSeen {
				mismatchesInARow = 0 // the same range asked again for another reason
			}
			mismatchSeen = false
			for n := range rangeHashes {
				delete(rangeHashes, n)
			}
			for n := r[0]; n <= r[1] && n <= chain.HeadNum(); n++ {
				rangeHashes[n] = chain.Canon[n].Hash
			}
		case "HeaderByNumber":
			b, ok := result.(*FBlock)
			if !ok || mode != replyOK {
				return
			}
			if h, in := rangeHashes[b.Num()]; in && h != b.Hash && !mismatchSeen {
				mismatchSeen = true
				mismatchesInARow++
				if mismatchesInARow > 5 {
					gaveUp = append(gaveUp, curRange)
					rec.Stats.Inc("downloader_gave_up_on_a_range_after_six_hash_mismatches")
				}
			}
		}
	}
	if v := start(false); v != nil {
		return v
	}
	go node.syncer.Start(node.ctx)
	w.Quiesce()
	defer func() { stop() }()

	stored := func() ([]storedBlock, error) {
		// the harness's own reads are not statements of the node: they do not count towards an armed crash point
		if p := DisarmFault(storePath); p != nil {
			defer ArmFault(storePath, p)
		}
		rows, err := node.store.P.DB().Query("SELECT num, hash FROM block ORDER BY num")
		if err != nil {
			return nil, err
		}
		defer rows.Close()
		out := []storedBlock{}
		for rows.Next() {
			var n uint64
			var h *string
			if err := rows.Scan(&n, &h); err != nil {
				return nil, err
			}
			sb := storedBlock{Num: n}
			if h != nil {
				sb.Hash = common.HexToHash(*h)
			}
			out = append(out, sb)
		}
		return out, nil
	}

	var prevStored []storedBlock
	replacedEver := false
	// rows that appeared BELOW the block the store had already reached (the downloader hands over a block at or below
	// the last processed one when it starts while the followed tip is below it: the root of recorded finding F16)
	insertedBelowTip := map[uint64]bool{}
	// trackedRows: what the detector's durable table holds right now (the harness's own read: not a statement of the node)
	trackedRows := func() map[storedBlock]bool {
		out := map[storedBlock]bool{}
		if p := DisarmFault(rdPath); p != nil {
			defer ArmFault(rdPath, p)
		}
		if db, err := sql.Open("sqlite3", "file:"+rdPath+"?mode=ro"); err == nil {
			if rows, err := db.Query("SELECT num, hash FROM tracked_block WHERE subscriber_id != 'second'"); err == nil {
				for rows.Next() {
					var n uint64
					var h string
					if rows.Scan(&n, &h) == nil {
						out[storedBlock{Num: n, Hash: common.HexToHash(h)}] = true
					}
				}
				rows.Close()
			}
			db.Close()
		}
		return out
	}
	// oracle (a): a stored block that is still canonical must never disappear
	checkStored := func(ctx string) *Violation {
		cur, err := stored()
		if err != nil {
			return &Violation{Oracle: "harness", Detail: "stored(): " + err.Error()}
		}
		have := map[storedBlock]bool{}
		for _, s := range cur {
			have[s] = true
		}
		// a rewind is justified only by a processed block that is no longer canonical
		justified := false
		for _, s := range prevStored {
			if s.Num != 0 && !chain.IsCanonical(s.Num, s.Hash) {
				justified = true
			}
		}
		// ... or by a block handed to the detector and still tracked by it (now, or at the previous look: the detector
		// drops its rows right after the rewind) that is no longer canonical
		cur2 := trackedRows()
		for s := range cur2 {
			pending[s] = true
		}
		for s := range pending {
			if s.Num != 0 && !have[s] && !answered[s] && !chain.IsCanonical(s.Num, s.Hash) {
				justified = true
			}
		}
		lowestRemoved := uint64(0)
		for _, s := range prevStored {
			if !have[s] && s.Num != 0 && (lowestRemoved == 0 || s.Num < lowestRemoved) {
				lowestRemoved = s.Num
			}
		}
		if lowestRemoved != 0 {
			for s := range pending {
				if s.Num >= lowestRemoved {
					answered[s] = true
				}
			}
		}
		pending = cur2
		for _, s := range prevStored {
			if !have[s] && s.Num != 0 && !justified {
				return &Violation{Oracle: "spurious-rewind", Sig: "c06/spurious-rewind",
					Detail: fmt.Sprintf("%s: processed block %d (%s) was removed from the store although every processed block was still on the canonical chain (rewound although nothing it processed was replaced)", ctx, s.Num, s.Hash.Hex()[:12])}
			}
			if !have[s] && s.Num != 0 {
				rec.Stats.Inc("blocks_rewound")
			}
		}
		for _, s := range cur {
			if s.Num != 0 && !chain.IsCanonical(s.Num, s.Hash) {
				replacedEver = true
			}
		}
		if len(prevStored) > 0 {
			top := prevStored[len(prevStored)-1].Num
			was := map[storedBlock]bool{}
			for _, s := range prevStored {
				was[s] = true
			}
			for _, s := range cur {
				if !was[s] && s.Num != 0 && s.Num < top && have[storedBlock{Num: top, Hash: prevStored[len(prevStored)-1].Hash}] {
					insertedBelowTip[s.Num] = true
					rec.Stats.Inc("rows_inserted_below_the_last_processed_block")
				}
			}
		}
		prevStored = cur
		return nil
	}

	density := int(cfg["density"])
	crashed := false
	maxHead := uint64(0)
	// crash images: the node dies at the instant one of its two databases is about to run its k-th statement
	// (in the middle of a transaction too); what both files held at that instant is all that survives
	imgDir := filepath.Join(dir, "crashimg")
	imgTaken, imgArmed := false, ""
	diskFull := false
	takeImage := func() {
		os.RemoveAll(imgDir)
		_ = CopyDBFiles(storePath, filepath.Join(imgDir, filepath.Base(storePath)))
		_ = CopyDBFiles(rdPath, filepath.Join(imgDir, filepath.Base(rdPath)))
		sub2mu.Lock()
		sub2image = append([]storedBlock(nil), sub2stored...)
		sub2mu.Unlock()
		imgTaken = true
	}
	gen := func(r *Rand) (Op, bool) {
		labels := w.ParkedLabels()
		wts := []int{int(cfg["w_mine"]), int(cfg["w_fork"]), int(cfg["w_fin"]), int(cfg["w_rel"]), int(cfg["w_time"]), int(cfg["w_rpcfault"]), int(cfg["w_crash"]), int(cfg["w_crashat"]), int(cfg["w_diskfull"]), 0}
		if sub2on {
			wts[9] = int(cfg["w_track2"])
		}
		if imgArmed != "" || diskFull {
			wts[7] = 0
		}
		if imgArmed != "" {
			wts[8] = 0
		}
		if diskFull {
			// while the driver is stuck with a block the world goes on: this is where in-flight state piles up
			wts[8] = wts[8] + 2
			wts[1] *= 3
			wts[2] *= 3
		}
		if imgArmed == "" && !diskFull {
			// a reorg of processed blocks is waiting to be noticed and handled: the interesting moment to die
			for _, sb := range prevStored {
				if sb.Num != 0 && !chain.IsCanonical(sb.Num, sb.Hash) {
					if wts[7] > 0 {
						wts[7] = wts[7]*6 + 6
					}
					break
				}
			}
		}
		if len(labels) == 0 {
			wts[3], wts[5] = 0, 0
			wts[4] += 30
		}
		if chain.HeadNum() <= floor() {
			wts[1] = 0
		}
		switch r.Pick(wts) {
		case 0:
			n := 1
			if r.Bool(35) {
				n = r.Range(2, 7)
			}
			return Op{K: "mine", A: []int64{int64(r.U64() >> 1), int64(n)}}, true
		case 1:
			maxDepth := int(chain.HeadNum() - floor())
			d := 1 + r.Intn(min(maxDepth, 6))
			n := r.Range(0, d+2) // shorter, equal or longer fork
			return Op{K: "fork", A: []int64{int64(r.U64() >> 1), int64(d), int64(n)}}, true
		case 2:
			return Op{K: "fin", A: []int64{int64(r.Range(0, 4)), int64(r.Range(0, 3))}}, true
		case 3:
			return Op{K: "rel", S: labels[r.Intn(len(labels))], A: []int64{0}}, true
		case 4:
			ms := []int64{cfg["wait_ms"], cfg["retry_ms"], cfg["reorg_ms"], 100, 3000}[r.Intn(5)]
			return Op{K: "time", A: []int64{ms}}, true
		case 5:
			fm := int64(1 + r.Intn(2))
			if r.Bool(25) {
				fm = replyDeadline
			}
			return Op{K: "rel", S: labels[r.Intn(len(labels))], A: []int64{fm}}, true
		case 9:
			return Op{K: "track2", A: []int64{int64(r.Range(1, 6))}}, true
		case 8:
			return Op{K: "diskfull"}, true
		case 7:
			k := 1 + r.Intn(8)
			if r.Bool(30) {
				k = 1 + r.Intn(40)
			}
			which := int64(r.Intn(2))
			if r.Bool(35) {
				which, k = 2, 1+r.Intn(3) // at the k-th DELETE of the syncer's database: a rewind in progress
			}
			return Op{K: "crashat", A: []int64{which, int64(k), cfg["sub_first"]}}, true
		default:
			return Op{K: "crash", A: []int64{cfg["sub_first"]}}, true
		}
	}

	crashAtArg := int64(0)
	apply := func(op Op) *Violation {
		rec.Stats.Inc("steps")
		if imgTaken {
			// the node died when the image was taken: only the image survives
			imgTaken = false
			if pl := DisarmFault(imgArmed); pl != nil && pl.YieldOnDelete {
				rec.Stats.Inc("crash_while_rewinding")
			}
			imgArmed = ""
			stop()
			_ = CopyDBFiles(filepath.Join(imgDir, filepath.Base(storePath)), storePath)
			_ = CopyDBFiles(filepath.Join(imgDir, filepath.Base(rdPath)), rdPath)
			sub2mu.Lock()
			sub2stored = append([]storedBlock(nil), sub2image...)
			sub2mu.Unlock()
			crashed = true
			rec.Stats.Inc("crash_restart")
			rec.Stats.Inc("crash_at_statement_image")
			if v := start(crashAtArg == 1); v != nil {
				return v
			}
			go node.syncer.Start(node.ctx)
			w.Quiesce()
			// what was processed after the instant of the crash never happened
			if cur, err := stored(); err == nil {
				prevStored = cur
			}
			// blocks the dead incarnation had handed to the detector but not yet committed to its store count as
			// "processed" for the never-rewound clause: their replacement justifies a rewind (see checkStored)
			pending = trackedRows()
			rec.Step("XI")
		}
		switch op.K {
		case "mine":
			r := NewRand(uint64(op.Arg(0)))
			chain.snapshotPrev()
			for i := int64(0); i < op.Arg(1); i++ {
				chain.Mine(r.U64(), gen1.Fill(r, density))
			}
			rec.Stats.Add("blocks_mined", op.Arg(1))
			rec.Step(fmt.Sprintf("M%d", op.Arg(1)))
		case "fork":
			d := uint64(op.Arg(1))
			if chain.HeadNum() <= floor() {
				return nil
			}
			if d > chain.HeadNum()-floor() {
				d = chain.HeadNum() - floor()
			}
			r := NewRand(uint64(op.Arg(0)))
			chain.snapshotPrev()
			keep := chain.HeadNum() - d
			chain.Rewind(keep)
			gen1.Rebuild(chain)
			for i := int64(0); i < op.Arg(2); i++ {
				chain.Mine(r.U64(), gen1.Fill(r, density))
			}
			rec.Stats.Inc("forks")
			if uint64(op.Arg(2)) < d {
				rec.Stats.Inc("forks_shortening")
			}
			rec.Step(fmt.Sprintf("K%d.%d", d, op.Arg(2)))
		case "track2":
			// the second syncer processes its next blocks: hands each not yet final one to the detector, then stores it
			for i := int64(0); i < op.Arg(0); i++ {
				sub2mu.Lock()
				next := uint64(1)
				if len(sub2stored) > 0 {
					next = sub2stored[len(sub2stored)-1].Num + 1
				}
				sub2mu.Unlock()
				if next > chain.HeadNum() {
					break
				}
				b := chain.Canon[next]
				if next > floor() {
					if err := node.rd.AddBlockToTrack(node.ctx, "second", next, b.Hash); err != nil {
						rec.Stats.Inc("second_subscriber_track_errors")
						break
					}
				}
				sub2mu.Lock()
				sub2stored = append(sub2stored, storedBlock{Num: next, Hash: b.Hash})
				sub2mu.Unlock()
				rec.Stats.Inc("second_subscriber_blocks")
			}
			w.Quiesce()
			rec.Step("T2")
		case "fin":
			chain.snapshotPrev()
			chain.Finalized = min(chain.Finalized+uint64(op.Arg(0)), chain.HeadNum())
			chain.Safe = min(max(chain.Safe, chain.Finalized)+uint64(op.Arg(1)), chain.HeadNum())
			rec.Step("F")
		case "rel":
			p := w.FirstParked(op.S)
			if p == nil {
				return nil
			}
			mode := int(op.Arg(0))
			if mode == replyNotFound && !(p.method == "HeaderByNumber" && p.desc[0] >= '0' && p.desc[0] <= '9') {
				mode = replyTransient
			}
			if mode == replyDeadline && p.method != "HeaderByNumber" && p.method != "FilterLogs" {
				mode = replyTransient
			}
			if mode != replyOK {
				rec.Stats.Inc(fmt.Sprintf("rpc_fault_%d_%s", mode, p.method))
			}
			rec.Step("r" + p.label + p.method[:1] + fmt.Sprint(mode))
			w.Release(p, mode)
		case "time":
			w.Advance(time.Duration(op.Arg(0)) * time.Millisecond)
			rec.Step("T")
		case "diskfull":
			if imgArmed != "" {
				break
			}
			if diskFull {
				DisarmFault(storePath)
				diskFull = false
				rec.Step("DF0")
			} else {
				ArmFault(storePath, &FaultPlan{DenyAllWrites: true})
				diskFull = true
				rec.Stats.Inc("fault_store_disk_full")
				rec.Step("DF1")
			}
		case "crashat":
			if imgArmed != "" || diskFull {
				break
			}
			imgArmed = storePath
			if op.Arg(0) == 1 {
				imgArmed = rdPath
			}
			crashAtArg = op.Arg(2)
			ArmFault(imgArmed, &FaultPlan{YieldAt: int(op.Arg(1)), Yield: takeImage, YieldOnDelete: op.Arg(0) == 2})
			rec.Step("XA")
		case "crash":
			if imgArmed != "" {
				DisarmFault(imgArmed)
				imgArmed, imgTaken = "", false
			}
			if diskFull {
				DisarmFault(storePath)
				diskFull = false
			}
			stop()
			crashed = true
			rec.Stats.Inc("crash_restart")
			if op.Arg(0) == 1 {
				rec.Stats.Inc("crash_restart_subscribe_first")
			}
			if v := start(op.Arg(0) == 1); v != nil {
				return v
			}
			go node.syncer.Start(node.ctx)
			w.Quiesce()
			rec.Step(fmt.Sprintf("X%d", op.Arg(0)))
		}
		maxHead = max(maxHead, chain.HeadNum())
		if v := singleCaller(w, "after "+op.String()); v != nil {
			return v
		}
		if v := checkStored("after " + op.String()); v != nil {
			return v
		}
		pl := DisarmFault(storePath)
		lp, _ := node.store.LastProcessed()
		if pl != nil {
			ArmFault(storePath, pl)
		}
		rec.Event("after %s: parked=[%s] lp=%d stored=%d head=%d fin=%d safe=%d halted=%v", op, w.ParkedDigest(), lp, len(prevStored), chain.HeadNum(), chain.Finalized, chain.Safe, node.store.IsHalted())
		rec.State(fmt.Sprintf("%d:%d:%d:%s", int64(chain.HeadNum())-int64(lp), chain.HeadNum()-floor(), len(w.Parked()), w.ParkedDigest()))
		return nil
	}

	for {
		op, ok := sc.Next(gen)
		if !ok {
			break
		}
		if v := apply(op); v != nil {
			return v
		}
	}
	_ = crashed

	if diskFull {
		DisarmFault(storePath)
		diskFull = false
	}
	// drain: the chain stops changing; fair policy; bounded liveness, then convergence
	converged := func() (bool, string) {
		cur, err := stored()
		if err != nil {
			return false, err.Error()
		}
		for _, s := range cur {
			if s.Num != 0 && !chain.IsCanonical(s.Num, s.Hash) {
				return false, fmt.Sprintf("stored block %d (%s) is not on the canonical chain", s.Num, s.Hash.Hex()[:12])
			}
		}
		have := map[uint64]bool{}
		for _, s := range cur {
			have[s.Num] = true
		}
		tip := tagValue(chain, syncTag)
		for n := uint64(1); n <= tip; n++ {
			if mb, ok := chain.Canon[n].Payload.(MBlock); ok && len(mb.Events) > 0 && !have[n] {
				return false, fmt.Sprintf("canonical block %d with %d events is not stored", n, len(mb.Events))
			}
		}
		return true, ""
	}
	// chains keep growing: a fork that left the chain shorter than it once was is extended past its
	// old height before the chain "stops changing" (a header the detector tracks must exist again)
	if chain.HeadNum() <= maxHead {
		r := NewRand(tr.Seed ^ 0xd7a1)
		chain.snapshotPrev()
		for chain.HeadNum() <= maxHead {
			chain.Mine(r.U64(), gen1.Fill(r, density))
		}
	}
	// finality catches up with the chain that no longer forks (the syncer may follow the safe / finalized tag)
	chain.Finalized = chain.HeadNum() - min(chain.HeadNum(), 1)
	chain.Safe = chain.HeadNum()
	cap := 600 + 60*int(chain.HeadNum())
	rr := 0
	// the chain is static and no fault is injected any more: when the stored blocks have not changed for 420 steps
	// (several detector periods and dozens of polls with every configuration) they will not -
	// e.g. the driver retrying a block that can never succeed (recorded finding F15) would otherwise burn
	// hundreds of thousands of retries before the step cap is reached
	lastDigest, unchanged := "", 0
	for i := 0; i < cap; i++ {
		if i%6 == 0 {
			if ok, _ := converged(); ok {
				break
			}
			if cur, err := stored(); err == nil {
				d := fmt.Sprint(cur)
				if d == lastDigest {
					unchanged += 6
				} else {
					lastDigest, unchanged = d, 0
				}
				if unchanged >= 420 {
					rec.Stats.Inc("drain_stopped_at_fixed_point")
					break
				}
			}
		}
		ps := w.Parked()
		if len(ps) > 0 {
			w.Release(ps[rr%len(ps)], replyOK)
			rr++
		} else {
			w.Advance(time.Duration(min(cfg["wait_ms"], cfg["reorg_ms"])) * time.Millisecond)
		}
		rec.Stats.Inc("drain_steps")
		if v := singleCaller(w, "drain"); v != nil {
			return v
		}
		if i%3 == 0 {
			if v := checkStored("drain"); v != nil {
				return v
			}
		}
	}
	if v := checkStored("drain"); v != nil {
		return v
	}
	if ok, why := converged(); !ok {
		if os.Getenv("VERIF_DUMP") != "" {
			pprof.Lookup("goroutine").WriteTo(os.Stderr, 1)
		}
		sig := "c06/not-converged"
		// mechanism check for a recorded finding: the detector has detected (and persisted) a reorg that covers
		// a stored non-canonical block, but the driver never took the notification (it is retrying a block
		// that keeps failing and does not listen for reorgs while retrying)
		if cur, err := stored(); err == nil {
			firstBad := uint64(0)
			for _, sb := range cur {
				if sb.Num != 0 && !chain.IsCanonical(sb.Num, sb.Hash) {
					firstBad = sb.Num
					break
				}
			}
			if firstBad != 0 {
				if db, err := sql.Open("sqlite3", "file:"+rdPath+"?mode=ro"); err == nil {
					var n int
					// ... detected by the RUNNING incarnation: a detection made before the last restart is not waiting in
					// notifySubscriber any more (that would be a different defect)
					if db.QueryRow("SELECT COUNT(*) FROM reorg_event WHERE from_block <= ? AND to_block >= ? AND rowid > ?", firstBad, firstBad, reorgEventsAtStart).Scan(&n) == nil && n > 0 {
						sig = "c06/reorg-detected-but-never-taken-by-driver"
					}
					// second recorded mechanism: the block number of a stored, replaced block was delivered again
					// (the tip had fallen below the last processed block when the downloader started) and
					// AddBlockToTrack overwrote the tracked hash with the canonical one, hiding the reorg
					if n == 0 && repeatDelivered[firstBad] {
						sig = "c06/tracked-hash-overwritten-by-repeat-delivery"
					}
					db.Close()
				}
			}
			// variant of the second mechanism (F16b): the block handed over at or below the last processed one was stored
			// as a row below the stale tip; after the rewind of the stale tip the syncer resumes right above that row
			// and never reads the new fork's blocks below it
			if firstBad == 0 && len(insertedBelowTip) > 0 {
				have := map[uint64]bool{}
				for _, sb := range cur {
					have[sb.Num] = true
				}
				tip := tagValue(chain, syncTag)
				for n := uint64(1); n <= tip; n++ {
					if mb, ok := chain.Canon[n].Payload.(MBlock); ok && len(mb.Events) > 0 && !have[n] {
						for m := range insertedBelowTip {
							if n < m && have[m] {
								sig = "c06/resumed-above-unsynced-blocks-after-delivery-below-the-tip"
							}
						}
						break
					}
				}
			}
			// third recorded mechanism (F20): a canonical block with events is missing and lies in a range the downloader
			// gave up on after six hash mismatches in a row
			if firstBad == 0 && len(gaveUp) > 0 {
				have := map[uint64]bool{}
				for _, sb := range cur {
					have[sb.Num] = true
				}
				tip := tagValue(chain, syncTag)
				for n := uint64(1); n <= tip; n++ {
					if mb, ok := chain.Canon[n].Payload.(MBlock); ok && len(mb.Events) > 0 && !have[n] {
						for _, g := range gaveUp {
							if n >= g.a && n <= g.b {
								sig = "c06/range-skipped-after-hash-mismatch-retries"
							}
						}
						break
					}
				}
			}
		}
		return &Violation{Oracle: "convergence", Sig: sig, Detail: fmt.Sprintf("the chain stopped changing but after %d fair scheduler steps the store has not converged: %s (halted=%v, parked=[%s])", cap, why, node.store.IsHalted(), w.ParkedDigest())}
	}
	// (c) observational equality with the reference of the final canonical chain (up to the synced tip)
	final := NewL1Model()
	tip := tagValue(chain, syncTag)
	for n := uint64(1); n <= tip; n++ {
		if mb, ok := chain.Canon[n].Payload.(MBlock); ok && len(mb.Events) > 0 {
			final.Apply(mb)
		}
	}
	node.store.LooseLast = true
	if err := node.store.CheckRef(final, true, NewRand(tr.Seed)); err != nil {
		return &Violation{Oracle: "final-state", Sig: "c06/final-state", Detail: "after convergence the store differs from the reference of the final canonical chain: " + err.Error()}
	}
	if replacedEver {
		rec.Stats.Inc("runs_with_replaced_processed_block")
	}
	// the second subscriber: every block it stores that the chain has replaced must be reported to it (the chain is
	// static and final up to its head: a few more detector periods are granted)
	if sub2on {
		stale := func() (uint64, bool) {
			sub2mu.Lock()
			defer sub2mu.Unlock()
			for _, sb := range sub2stored {
				if !chain.IsCanonical(sb.Num, sb.Hash) {
					return sb.Num, true
				}
			}
			return 0, false
		}
		for i := 0; i < 400; i++ {
			if _, bad := stale(); !bad {
				break
			}
			ps := w.Parked()
			if len(ps) > 0 {
				w.Release(ps[i%len(ps)], replyOK)
			} else {
				w.Advance(time.Duration(cfg["reorg_ms"]) * time.Millisecond)
			}
		}
		if n, bad := stale(); bad {
			return &Violation{Oracle: "convergence", Sig: "c06/second-subscriber-not-rewound", Detail: fmt.Sprintf("the second subscriber of the detector still stores block %d of a dropped fork: it handed the block to the detector when it processed it, the chain has stopped changing, and it was never told to rewind", n)}
		}
	}
	return nil
}

func init() {
	register(&PropSpec{ID: "C06", Engine: "syncsim", Config: C06Config, Run: RunC06,
		OpLimit:    func(cfg map[string]int64) int { return int(cfg["ops"]) },
		Nontrivial: func(s Stats) bool { return s["runs_with_replaced_processed_block"] > 0 }})
	_ = sort.Strings
}

// singleCaller: each component label stands for one node goroutine chain (one downloader, one
// detector loop). Two calls of the same component parked at once mean that a superseded
// downloader is still running after a reorg or restart was handled.
func singleCaller(w *World, ctx string) *Violation {
	seen := map[string]bool{}
	for _, p := range w.Parked() {
		if seen[p.label] {
			return &Violation{Oracle: "stale-downloader", Sig: "c06/stale-downloader",
				Detail: fmt.Sprintf("%s: two concurrent RPC calls of component %q are in flight: the previous downloader was not stopped when the reorg was handled", ctx, p.label)}
		}
		seen[p.label] = true
	}
	return nil
}

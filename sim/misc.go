package sim

import (
	"database/sql"
	"os"
	"reflect"
	"testing"
	"time"
	"unsafe"

	"github.com/agglayer/aggkit/log"
)

var workerT *testing.T

func nowWall() int64 { return time.Now().Unix() }

// quietLogs raises the node's log level: log output is never part of the event log.
func quietLogs() {
	if lv := os.Getenv("VERIF_NODELOG"); lv != "" {
		log.Init(log.Config{Environment: log.EnvironmentProduction, Level: lv, Outputs: []string{"stderr"}})
		return
	}
	log.Init(log.Config{Environment: log.EnvironmentProduction, Level: "fatal", Outputs: []string{"/dev/null"}})
}

// closePrivateDB closes the *sql.DB held in an unexported field of a node
// object (the node never closes its stores; bounded fd use per worker process).
func closePrivateDB(obj any, field string) {
	defer func() { recover() }()
	v := reflect.ValueOf(obj)
	if v.Kind() == reflect.Pointer {
		v = v.Elem()
	}
	f := v.FieldByName(field)
	if !f.IsValid() || f.IsNil() {
		return
	}
	p := reflect.NewAt(f.Type(), unsafe.Pointer(f.UnsafeAddr())).Elem().Interface()
	if db, ok := p.(*sql.DB); ok && db != nil {
		db.Close()
	}
}

// reflectField returns the value held in an unexported field of a node object.
func reflectField(obj any, field string) any {
	defer func() { recover() }()
	v := reflect.ValueOf(obj)
	if v.Kind() == reflect.Pointer {
		v = v.Elem()
	}
	f := v.FieldByName(field)
	if !f.IsValid() {
		return nil
	}
	return reflect.NewAt(f.Type(), unsafe.Pointer(f.UnsafeAddr())).Elem().Interface()
}

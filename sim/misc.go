package sim

import (
	"testing"
	"time"

	"github.com/agglayer/aggkit/log"
)

var workerT *testing.T

func nowWall() int64 { return time.Now().Unix() }

// quietLogs raises the node's log level: log output is never part of the event log.
func quietLogs() {
	log.Init(log.Config{Environment: log.EnvironmentProduction, Level: "fatal", Outputs: []string{"/dev/null"}})
}

package sim

// C11: the L1 info tree and rollup exit tree mirror the L1 contracts.
// Engine: storesim + in-process EVM with the real PolygonZkEVMGlobalExitRootV2 and the repo's
// VerifyBatchesMock (same rollup-exit-root algorithm as the rollup manager). Events are decoded
// by the real l1infotreesync appenders and processed by the real processor + trees + SQLite.

import (
	"context"
	"crypto/ecdsa"
	"fmt"
	"math/big"
	"os"
	"path/filepath"

	"github.com/0xPolygon/cdk-contracts-tooling/contracts/pp/l2-sovereign-chain/polygonzkevmglobalexitrootv2"
	"github.com/agglayer/aggkit/l1infotreesync"
	aggsync "github.com/agglayer/aggkit/sync"
	"github.com/agglayer/aggkit/test/contracts/verifybatchesmock"
	"github.com/ethereum/go-ethereum"
	"github.com/ethereum/go-ethereum/accounts/abi/bind"
	"github.com/ethereum/go-ethereum/common"
	ethtypes "github.com/ethereum/go-ethereum/core/types"
	"github.com/ethereum/go-ethereum/crypto"
	"github.com/ethereum/go-ethereum/ethclient/simulated"
)

func C11Config(prop string, r *Rand, tier string) map[string]int64 {
	c := map[string]int64{}
	c["ops"] = int64(r.Range(15, 60))
	if tier == "thorough" {
		c["ops"] = int64(r.Range(20, 140))
	}
	c["w_mer"] = int64(r.Range(15, 40))
	c["w_vb"] = int64(r.Range(15, 40))
	c["w_commit"] = int64(r.Range(8, 30))
	c["w_restart"] = int64(r.Range(0, 10))
	return c
}

type c11Expect struct {
	vb    *l1infotreesync.VerifyBatches
	leaf  bool
	mer   common.Hash
	rer   common.Hash
	block uint64
}

func RunC11(prop string, tr *Trace, sc *Script, rec *Recorder, scratch string) (viol *Violation) {
	InstallSQLiteHooks()
	defer func() {
		if r := recover(); r != nil {
			viol = &Violation{Oracle: "harness", Detail: fmt.Sprintf("panic: %v", r)}
		}
	}()
	cfg := tr.Cfg
	dir := filepath.Join(scratch, fmt.Sprintf("c11-%d-%d", tr.Seed, tr.Run))
	os.RemoveAll(dir)
	os.MkdirAll(dir, 0o755)
	defer os.RemoveAll(dir)
	fail := func(oracle, sig, format string, a ...any) *Violation {
		return &Violation{Oracle: oracle, Sig: "c11/" + sig, Detail: fmt.Sprintf(format, a...)}
	}
	kr := NewRand(tr.Seed ^ 0xc11)
	var key *ecdsa.PrivateKey
	for key == nil {
		if k, err := crypto.ToECDSA(kr.Bytes(32)); err == nil {
			key = k
		}
	}
	auth, _ := bind.NewKeyedTransactorWithChainID(key, big.NewInt(1337))
	backend := simulated.NewBackend(map[common.Address]ethtypes.Account{auth.From: {Balance: new(big.Int).Lsh(big.NewInt(1), 200)}}, simulated.WithBlockGasLimit(999999999999999999))
	defer backend.Close()
	cl := backend.Client()
	nonce, err := cl.PendingNonceAt(context.Background(), auth.From)
	if err != nil {
		return &Violation{Oracle: "harness", Detail: err.Error()}
	}
	gerPre := crypto.CreateAddress(auth.From, nonce+1)
	rmAddr, _, mock, err := verifybatchesmock.DeployVerifybatchesmock(auth, cl, gerPre)
	if err != nil {
		return &Violation{Oracle: "harness", Detail: "deploy mock: " + err.Error()}
	}
	commitAll(backend, cl, 1)
	gerAddr, _, ger, err := polygonzkevmglobalexitrootv2.DeployPolygonzkevmglobalexitrootv2(auth, cl, rmAddr, auth.From)
	if err != nil || gerAddr != gerPre {
		return &Violation{Oracle: "harness", Detail: fmt.Sprintf("deploy ger: %v (%s vs %s)", err, gerAddr, gerPre)}
	}
	commitAll(backend, cl, 1)
	appender, err := l1infotreesync.VerifBuildAppender(cl, gerAddr, rmAddr)
	if err != nil {
		return &Violation{Oracle: "harness", Detail: "appender: " + err.Error()}
	}
	store := NewL1Store(filepath.Join(dir, "l1info.sqlite"))
	if err := store.Open(); err != nil {
		return &Violation{Oracle: "harness", Detail: err.Error()}
	}
	defer store.Close()
	model := NewL1Model()
	// what the contracts will do, tracked independently
	var lastMER, lastRER common.Hash
	seenGER := map[common.Hash]bool{}
	rollup := NewRefSparse()
	zeroOverNonZero := false
	var usedRoots []common.Hash
	seenTreeRoots := map[common.Hash]bool{}
	mockRollup := NewRefSparse() // the mock's own leaves (it stores zero exit roots too)
	maxRollup := uint32(0)
	var pendingExp []c11Expect
	head, _ := cl.HeaderByNumber(context.Background(), nil)
	lastSynced := head.Number.Uint64()
	// nonces are assigned here: the pool promotes transactions asynchronously, PendingNonceAt may lag
	nextNonce, err := cl.PendingNonceAt(context.Background(), auth.From)
	if err != nil {
		return &Violation{Oracle: "harness", Detail: err.Error()}
	}

	expectUpdate := func(e *c11Expect) {
		g := keccak2(lastMER, lastRER)
		if !seenGER[g] {
			seenGER[g] = true
			e.leaf, e.mer, e.rer = true, lastMER, lastRER
		}
	}

	syncBlocks := func() *Violation {
		h, _ := cl.HeaderByNumber(context.Background(), nil)
		for n := lastSynced + 1; n <= h.Number.Uint64(); n++ {
			hdr, err := cl.HeaderByNumber(context.Background(), new(big.Int).SetUint64(n))
			if err != nil {
				return &Violation{Oracle: "harness", Detail: err.Error()}
			}
			logs, err := cl.FilterLogs(context.Background(), ethereum.FilterQuery{FromBlock: hdr.Number, ToBlock: hdr.Number, Addresses: []common.Address{gerAddr, rmAddr}})
			if err != nil {
				return &Violation{Oracle: "harness", Detail: err.Error()}
			}
			blk := &aggsync.EVMBlock{EVMBlockHeader: aggsync.EVMBlockHeader{Num: n, Hash: hdr.Hash(), ParentHash: hdr.ParentHash, Timestamp: hdr.Time}}
			for _, l := range logs {
				if fn, ok := appender[l.Topics[0]]; ok {
					if err := fn(blk, l); err != nil {
						return fail("decode", "appender-error", "the L1 info appender failed on a real log: %v", err)
					}
				}
			}
			if err := store.P.ProcessBlock(bg, aggsync.Block{Num: n, Hash: hdr.Hash(), Events: blk.Events}); err != nil {
				return fail("process", "process-error", "ProcessBlock(%d) with %d real events failed: %v", n, len(blk.Events), err)
			}
			// expected model events of this block (contents from what was sent, positions from the logs)
			mb := MBlock{Num: n, Hash: hdr.Hash()}
			li := 0
			nextLog := func(sig common.Hash) (uint64, bool) {
				for ; li < len(logs); li++ {
					if logs[li].Topics[0] == sig {
						li++
						return uint64(logs[li-1].Index), true
					}
				}
				return 0, false
			}
			leafAdded, vbAdded := false, false
			for _, e := range pendingExp {
				if e.vb != nil {
					sig := rmABI.Events["VerifyBatches"].ID
					if e.vb.Aggregator == (common.Address{1}) {
						sig = rmABI.Events["VerifyBatchesTrustedAggregator"].ID
					}
					_ = sig
				}
			}
			// walk the logs in order and pair them with the expectations in order
			ei := 0
			for _, l := range logs {
				switch l.Topics[0] {
				case gerABI.Events["UpdateL1InfoTree"].ID:
					for ei < len(pendingExp) && !pendingExp[ei].leaf {
						ei++
					}
					if ei >= len(pendingExp) {
						return &Violation{Oracle: "harness", Detail: "unexpected UpdateL1InfoTree log"}
					}
					e := pendingExp[ei]
					ei++
					mb.Events = append(mb.Events, l1infotreesync.Event{UpdateL1InfoTree: &l1infotreesync.UpdateL1InfoTree{BlockPosition: uint64(l.Index),
						MainnetExitRoot: e.mer, RollupExitRoot: e.rer, ParentHash: hdr.ParentHash, Timestamp: hdr.Time}})
					leafAdded = true
				}
			}
			for _, l := range logs {
				if l.Topics[0] == rmABI.Events["VerifyBatches"].ID || l.Topics[0] == rmABI.Events["VerifyBatchesTrustedAggregator"].ID {
					vbAdded = true
				}
			}
			// verify-batches expectations in order, positions from the rollup manager's logs in order
			vi := 0
			var vbEvents []any
			for _, l := range logs {
				if l.Topics[0] != rmABI.Events["VerifyBatches"].ID && l.Topics[0] != rmABI.Events["VerifyBatchesTrustedAggregator"].ID {
					continue
				}
				for vi < len(pendingExp) && pendingExp[vi].vb == nil {
					vi++
				}
				if vi >= len(pendingExp) {
					return &Violation{Oracle: "harness", Detail: "unexpected VerifyBatches log"}
				}
				v := *pendingExp[vi].vb
				vi++
				v.BlockPosition = uint64(l.Index)
				vbEvents = append(vbEvents, l1infotreesync.Event{VerifyBatches: &v})
			}
			// merge by block position so that the model sees them in chain order
			all := append(mb.Events, vbEvents...)
			for i := 0; i < len(all); i++ {
				for j := i + 1; j < len(all); j++ {
					if c11Pos(all[j]) < c11Pos(all[i]) {
						all[i], all[j] = all[j], all[i]
					}
				}
			}
			mb.Events = all
			_ = nextLog
			pendingExp = nil
			model.Apply(mb)
			// ---- oracle against the contracts at this block
			if leafAdded {
				want, err := ger.GetRoot(&bind.CallOpts{BlockNumber: hdr.Number})
				if err != nil {
					return &Violation{Oracle: "harness", Detail: "ger.getRoot: " + err.Error()}
				}
				got, err := store.F.GetLastL1InfoTreeRoot(bg)
				if err != nil || got.Hash != common.Hash(want) {
					return fail("root", "l1-info-root-vs-contract", "after block %d the node's L1 info root is %s (err=%v), the contract's getRoot() is %s", n, got.Hash.Hex(), err, common.Hash(want).Hex())
				}
				if len(model.Tree.Roots) > 0 && model.Tree.Roots[len(model.Tree.Roots)-1] != common.Hash(want) {
					return &Violation{Oracle: "harness", Detail: "reference L1 info tree disagrees with the contract"}
				}
				m2, err := ger.L1InfoRootMap(&bind.CallOpts{BlockNumber: hdr.Number}, got.Index+1)
				if err != nil || common.Hash(m2) != got.Hash {
					return fail("root", "l1-info-root-map", "l1InfoRootMap(%d) = %s, node root for that leaf count %s", got.Index+1, common.Hash(m2).Hex(), got.Hash.Hex())
				}
				rec.Stats.Inc("l1_info_roots_checked_against_contract")
			}
			if vbAdded {
				want, err := mock.GetRollupExitRoot(&bind.CallOpts{BlockNumber: hdr.Number})
				if err != nil {
					return &Violation{Oracle: "harness", Detail: "getRollupExitRoot: " + err.Error()}
				}
				if mockRollup.Root() != common.Hash(want) {
					return &Violation{Oracle: "harness", Detail: fmt.Sprintf("model of the rollup-manager mock disagrees with the mock: %s vs %s", mockRollup.Root().Hex(), common.Hash(want).Hex())}
				}
				if rollup.Root() != common.Hash(want) {
					if zeroOverNonZero {
						// the mock cleared the leaf; the property keeps the last non-zero exit root: from here on the
						// node is compared with the reference only (CheckRef below)
						rec.Stats.Inc("mock_cleared_leaf_on_zero_exit_root")
						want = [32]byte(rollup.Root())
					} else {
						return &Violation{Oracle: "harness", Detail: fmt.Sprintf("reference rollup exit tree disagrees with the contract: %s vs %s", rollup.Root().Hex(), common.Hash(want).Hex())}
					}
				}
				if len(model.VBs) > 0 {
					got, err := store.F.GetLastRollupExitRoot(bg)
					if err != nil || got.Hash != common.Hash(want) {
						return fail("root", "rollup-exit-root-vs-contract", "after block %d the node's rollup exit root is %s (err=%v), the rollup manager's is %s", n, got.Hash.Hex(), err, common.Hash(want).Hex())
					}
					rec.Stats.Inc("rollup_exit_roots_checked_against_contract")
				}
			}
			for _, e := range mb.Events {
				if u := e.(l1infotreesync.Event).UpdateL1InfoTree; u != nil {
					g := keccak2(u.MainnetExitRoot, u.RollupExitRoot)
					lv, err := ger.GetLeafValue(&bind.CallOpts{}, g, new(big.Int).SetBytes(u.ParentHash[:]), u.Timestamp)
					if err != nil {
						return &Violation{Oracle: "harness", Detail: "getLeafValue: " + err.Error()}
					}
					info, err := store.F.GetInfoByGlobalExitRoot(g)
					if err != nil || info.Hash != common.Hash(lv) {
						return fail("leaf", "leaf-vs-contract", "L1 info leaf for GER %s: node hash %v (err=%v), contract getLeafValue %s", g.Hex()[:12], info, err, common.Hash(lv).Hex())
					}
					rec.Stats.Inc("leaves_checked_against_contract")
				}
			}
			lastSynced = n
		}
		if err := store.CheckRef(model, true, NewRand(tr.Seed)); err != nil {
			return fail("reference", "reference", "store differs from the reference built from what was sent: %v", err)
		}
		return nil
	}

	gen := func(r *Rand) (Op, bool) {
		switch r.Pick([]int{int(cfg["w_mer"]), int(cfg["w_vb"]), int(cfg["w_commit"]), int(cfg["w_restart"])}) {
		case 0:
			return Op{K: "mer", A: []int64{int64(r.U64() >> 1)}}, true
		case 1:
			return Op{K: "vb", A: []int64{int64(r.U64() >> 1)}}, true
		case 2:
			return Op{K: "commit"}, true
		default:
			return Op{K: "restart"}, true
		}
	}
	for {
		op, ok := sc.Next(gen)
		if !ok {
			break
		}
		rec.Event("op %s", op)
		opts := *auth
		opts.GasLimit = 5000000
		opts.Nonce = new(big.Int).SetUint64(nextNonce)
		if op.K == "mer" || op.K == "vb" {
			nextNonce++
		}
		if len(pendingExp) >= 10 && (op.K == "mer" || op.K == "vb") {
			// the transaction pool keeps a bounded number of pending transactions per account
			commitAll(backend, cl, len(pendingExp))
			if v := syncBlocks(); v != nil {
				return v
			}
		}
		switch op.K {
		case "mer":
			r := NewRand(uint64(op.Arg(0)))
			root := genHash(r)
			if r.Bool(10) {
				root = lastMER // unchanged root: no new GER
			}
			if _, err := ger.UpdateExitRoot(&opts, root); err != nil {
				return &Violation{Oracle: "harness", Detail: "updateExitRoot: " + err.Error()}
			}
			lastMER = root
			e := c11Expect{}
			expectUpdate(&e)
			pendingExp = append(pendingExp, e)
			rec.Stats.Inc("mainnet_root_updates")
			rec.Step("M")
		case "vb":
			r := NewRand(uint64(op.Arg(0)))
			rid := uint32(1 + r.Intn(4))
			if r.Bool(10) {
				rid = uint32(5 + r.Intn(20))
			}
			var er common.Hash
			cur, has := rollup.Leaves[rid-1]
			switch {
			case r.Bool(15) && has:
				er = cur // unchanged
			case r.Bool(12) && !has:
				er = common.Hash{} // zero root for a rollup that has none yet
			case r.Bool(14) && len(usedRoots) > 0:
				// an exit root that this or another rollup carried before (two rollups with the same local exit
				// root, a rollup going back to an earlier one): repeated nodes low in the updatable tree
				er = usedRoots[r.Intn(len(usedRoots))]
				if has && er == cur {
					er = genHash(r)
				}
				// the node keys the roots of this tree by hash: a history that brings the WHOLE tree back to an
				// earlier root is refused by the store (outside the properties; DESIGN 14.4) - not generated
				t := rollup.Clone()
				t.Set(rid-1, er)
				if seenTreeRoots[t.Root()] {
					er = genHash(r)
				}
			case r.Bool(10) && has:
				// zero root for a rollup that already has one: the node keeps the last non-zero root (the
				// property's wording); what the rollup-manager mock does with it is its own business
				er = common.Hash{}
				zeroOverNonZero = true
				rec.Stats.Inc("zero_exit_root_over_non_zero")
			default:
				er = genHash(r)
			}
			nb, sr := r.U64()%100000, genHash(r)
			upd := r.Bool(70)
			var err error
			trusted := r.Bool(50)
			if trusted {
				_, err = mock.VerifyBatchesTrustedAggregator(&opts, rid, nb, er, sr, upd)
			} else {
				_, err = mock.VerifyBatches(&opts, rid, nb, er, sr, upd)
			}
			if err != nil {
				return &Violation{Oracle: "harness", Detail: "verifyBatches: " + err.Error()}
			}
			if er != (common.Hash{}) {
				rollup.Set(rid-1, er)
				usedRoots = append(usedRoots, er)
				seenTreeRoots[rollup.Root()] = true
				mockRollup.Set(rid-1, er)
			} else {
				delete(mockRollup.Leaves, rid-1) // the mock stores the zero root: the leaf is empty again
			}
			if rid > maxRollup {
				maxRollup = rid
			}
			e := c11Expect{vb: &l1infotreesync.VerifyBatches{RollupID: rid, NumBatch: nb, StateRoot: sr, ExitRoot: er, Aggregator: auth.From}}
			if upd {
				// the rollup manager returns bytes32(0) only while no rollup exists; with rollups whose
				// exit roots are all zero it returns the root of the all-zero tree
				lastRER = mockRollup.Root() // what the mock hands to the GER contract
				expectUpdate(&e)
			}
			pendingExp = append(pendingExp, e)
			rec.Stats.Inc("verify_batches")
			rec.Step("V")
		case "commit":
			commitAll(backend, cl, len(pendingExp))
			if v := syncBlocks(); v != nil {
				return v
			}
			rec.Step("C")
		case "restart":
			store.Close()
			if err := store.Open(); err != nil {
				return &Violation{Oracle: "harness", Detail: err.Error()}
			}
			rec.Stats.Inc("restarts")
			rec.Step("S")
		}
		rec.State(fmt.Sprintf("%d:%d:%d", len(model.Leaves), len(model.VBs), lastSynced))
	}
	commitAll(backend, cl, len(pendingExp))
	return syncBlocks()
}

func c11Pos(e any) uint64 {
	ev := e.(l1infotreesync.Event)
	if ev.UpdateL1InfoTree != nil {
		return ev.UpdateL1InfoTree.BlockPosition
	}
	if ev.VerifyBatches != nil {
		return ev.VerifyBatches.BlockPosition
	}
	return 0
}

func init() {
	register(&PropSpec{ID: "C11", Engine: "storesim+evm", Config: C11Config, Run: RunC11,
		OpLimit:    func(cfg map[string]int64) int { return int(cfg["ops"]) },
		Nontrivial: func(s Stats) bool { return s["l1_info_roots_checked_against_contract"] >= 2 }})
}

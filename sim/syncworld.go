package sim

// syncworld: the scheduler side of timed simulations. Real goroutines of the
// node run inside a testing/synctest bubble; every call that leaves the node
// (each EthClienter method and the other seams) parks here and is answered one
// at a time by the scheduler, which is the bubble's main goroutine.

import (
	"context"
	"encoding/json"
	"errors"
	"fmt"
	"math/big"
	"sort"
	"strings"
	"sync"
	"testing"
	"testing/synctest"
	"time"

	"github.com/ethereum/go-ethereum"
	"github.com/ethereum/go-ethereum/common"
	"github.com/ethereum/go-ethereum/core/types"
)

const (
	replyOK = iota
	replyTransient
	replyNotFound
	replyStale
	replyDead
	replyDeadline // the request timed out (error wraps context.DeadlineExceeded) although the caller's context is alive
)

// replyOtherFork: a header request by number is answered by an RPC node that is (briefly) on another
// fork: same number, different hash. Only meaningful for HeaderByNumber(number).
const replyOtherFork = 11

var errInjectedTimeout = fmt.Errorf("injected RPC timeout (Client.Timeout exceeded while awaiting headers): %w", context.DeadlineExceeded)

var errInjectedRPC = errors.New("injected transient RPC error")
var errWorldDead = fmt.Errorf("node stopped: %w", context.Canceled)

type parkedCall struct {
	label  string
	seq    int // 0 until the scheduler first looks at the call (numbers are given in a canonical order, see Parked)
	arrive int
	method string
	desc   string
	ctx    context.Context
	ch     chan int
}

func (p *parkedCall) String() string { return fmt.Sprintf("%s#%d:%s(%s)", p.label, p.seq, p.method, p.desc) }

type World struct {
	// Epoch counts node incarnations: clients created before the last Kill stay dead for ever
	// (a crashed process makes no more calls, even if one of its goroutines ignores its context).
	Epoch  int
	mu     sync.Mutex
	parked []*parkedCall
	seq    map[string]int
	// arrivals orders calls of one component that carry the same request; nothing else depends on it
	arrivals int
	dead   bool
	setup  bool
	rec    *Recorder
	// RPC observation hook (called in the releasing goroutine after the answer was computed)
	OnRPC func(label, method, desc string, mode int, result any)
}

func NewWorld(rec *Recorder) *World {
	return &World{seq: map[string]int{}, rec: rec, setup: true}
}

// EndSetup: from now on calls park.
func (w *World) EndSetup() { w.mu.Lock(); w.setup = false; w.mu.Unlock() }
func (w *World) BeginSetup() { w.mu.Lock(); w.setup = true; w.mu.Unlock() }

// park blocks the calling node goroutine until the scheduler answers.
// Rule: a call whose context is already cancelled never parks and never
// consumes a sequence number; a parked call returns at once when its context
// is cancelled and is dropped from the list.
func (w *World) park(ctx context.Context, label, method, desc string, epoch int) int {
	if ctx == nil {
		ctx = context.Background()
	}
	w.mu.Lock()
	if w.dead || epoch != w.Epoch {
		w.mu.Unlock()
		return replyDead
	}
	if w.setup {
		w.mu.Unlock()
		return replyOK
	}
	if ctx.Err() != nil {
		w.mu.Unlock()
		return replyDead
	}
	w.arrivals++
	p := &parkedCall{label: label, arrive: w.arrivals, method: method, desc: desc, ctx: ctx, ch: make(chan int, 1)}
	w.parked = append(w.parked, p)
	w.mu.Unlock()
	select {
	case m := <-p.ch:
		return m
	case <-ctx.Done():
		w.mu.Lock()
		for i, q := range w.parked {
			if q == p {
				w.parked = append(w.parked[:i], w.parked[i+1:]...)
				break
			}
		}
		w.mu.Unlock()
		return replyDead
	}
}

// Quiesce waits until every other goroutine of the bubble is durably blocked.
func (w *World) Quiesce() { synctest.Wait() }

// Parked returns the parked calls sorted by (label, seq): arrival order inside the runtime is irrelevant.
// Sequence numbers are given here, at a quiescent point, not on arrival: when a component has two goroutines that park
// in the same step (a downloader the driver has replaced but that still retries, next to its successor), the calls that
// have no number yet get theirs in the order of (method, argument), whichever goroutine the runtime ran first.
func (w *World) Parked() []*parkedCall {
	w.mu.Lock()
	defer w.mu.Unlock()
	var fresh []*parkedCall
	for _, p := range w.parked {
		if p.seq == 0 {
			fresh = append(fresh, p)
		}
	}
	sort.Slice(fresh, func(i, j int) bool {
		a, b := fresh[i], fresh[j]
		if a.label != b.label {
			return a.label < b.label
		}
		if a.method != b.method {
			return a.method < b.method
		}
		if a.desc != b.desc {
			return a.desc < b.desc
		}
		return a.arrive < b.arrive
	})
	for _, p := range fresh {
		w.seq[p.label]++
		p.seq = w.seq[p.label]
	}
	out := append([]*parkedCall(nil), w.parked...)
	sort.Slice(out, func(i, j int) bool {
		if out[i].label != out[j].label {
			return out[i].label < out[j].label
		}
		return out[i].seq < out[j].seq
	})
	return out
}

func (w *World) ParkedLabels() []string {
	seen := map[string]bool{}
	out := []string{}
	for _, p := range w.Parked() {
		if !seen[p.label] {
			seen[p.label] = true
			out = append(out, p.label)
		}
	}
	return out
}

// FirstParked returns the lowest-seq parked call of a component.
func (w *World) FirstParked(label string) *parkedCall {
	for _, p := range w.Parked() {
		if p.label == label {
			return p
		}
	}
	return nil
}

// Release answers exactly one parked call and lets the node run until it blocks again.
func (w *World) Release(p *parkedCall, mode int) {
	w.mu.Lock()
	found := false
	for i, q := range w.parked {
		if q == p {
			w.parked = append(w.parked[:i], w.parked[i+1:]...)
			found = true
			break
		}
	}
	w.mu.Unlock()
	if !found {
		return
	}
	w.rec.Event("release %s mode=%d", p, mode)
	p.ch <- mode
	synctest.Wait()
}

// Advance moves the fake clock; timers fire in deadline order, woken goroutines run to their next block.
func (w *World) Advance(d time.Duration) {
	time.Sleep(d)
	synctest.Wait()
	w.rec.Stats.Add("sim_ms", d.Milliseconds())
}

// Kill marks the world dead: every parked and future call fails like a cancelled context.
func (w *World) Kill() {
	w.mu.Lock()
	w.dead = true
	ps := w.parked
	w.parked = nil
	w.mu.Unlock()
	for _, p := range ps {
		p.ch <- replyDead
	}
}

// Alive reports whether incarnation `epoch` is the running one.
func (w *World) Alive(epoch int) bool {
	w.mu.Lock()
	defer w.mu.Unlock()
	return !w.dead && w.Epoch == epoch
}

func (w *World) Revive() {
	w.mu.Lock()
	w.dead = false
	w.Epoch++
	w.seq = map[string]int{}
	w.mu.Unlock()
}

func (w *World) ParkedDigest() string {
	var sb strings.Builder
	for _, p := range w.Parked() {
		sb.WriteString(p.String())
		sb.WriteByte(' ')
	}
	return sb.String()
}

// ---------------------------------------------------------------- eth client

// FakeClient implements aggkittypes.EthClienter on top of a Chain; one
// instance per component so that the label is known without inspecting goroutines.
type FakeClient struct {
	W     *World
	C     *Chain
	Label string
	Epoch int
	// StaleNext: answer from the chain as it was one chain-op earlier.
}

func (c *FakeClient) view(mode int) ([]*FBlock, uint64, uint64) {
	if mode == replyStale && c.C.prev != nil {
		return c.C.prev, c.C.prevFinalized, c.C.prevSafe
	}
	return c.C.Canon, c.C.Finalized, c.C.Safe
}

func numDesc(n *big.Int) string {
	if n == nil {
		return "latest"
	}
	switch n.Int64() {
	case -3:
		return "finalized"
	case -4:
		return "safe"
	case -2:
		return "latest"
	case -1:
		return "pending"
	}
	return n.String()
}

func (c *FakeClient) obs(method, desc string, mode int, result any) {
	if c.W.OnRPC != nil {
		c.W.OnRPC(c.Label, method, desc, mode, result)
	}
}

func (c *FakeClient) HeaderByNumber(ctx context.Context, number *big.Int) (*types.Header, error) {
	desc := numDesc(number)
	mode := c.W.park(ctx, c.Label, "HeaderByNumber", desc, c.Epoch)
	switch mode {
	case replyDead:
		if ctx != nil && ctx.Err() != nil {
			return nil, ctx.Err()
		}
		return nil, errWorldDead
	case replyTransient:
		c.obs("HeaderByNumber", desc, mode, nil)
		return nil, errInjectedRPC
	case replyDeadline:
		c.obs("HeaderByNumber", desc, mode, nil)
		return nil, errInjectedTimeout
	case replyNotFound:
		c.obs("HeaderByNumber", desc, mode, nil)
		return nil, ethereum.NotFound
	}
	view, fin, safe := c.view(mode)
	b := c.C.resolve(view, fin, safe, number)
	if b == nil {
		c.obs("HeaderByNumber", desc, replyNotFound, nil)
		return nil, ethereum.NotFound
	}
	c.obs("HeaderByNumber", desc, mode, b)
	h := types.CopyHeader(b.Header)
	if mode == replyOtherFork && number != nil && number.Sign() >= 0 {
		h.Extra = append([]byte("other-fork:"), h.Extra...)
	}
	return h, nil
}

func (c *FakeClient) BlockByNumber(ctx context.Context, number *big.Int) (*types.Block, error) {
	h, err := c.HeaderByNumber(ctx, number)
	if err != nil {
		return nil, err
	}
	return types.NewBlockWithHeader(h), nil
}

func (c *FakeClient) BlockNumber(ctx context.Context) (uint64, error) {
	h, err := c.HeaderByNumber(ctx, nil)
	if err != nil {
		return 0, err
	}
	return h.Number.Uint64(), nil
}

func (c *FakeClient) ChainID(ctx context.Context) (*big.Int, error) {
	mode := c.W.park(ctx, c.Label, "ChainID", "", c.Epoch)
	switch mode {
	case replyDead:
		if ctx != nil && ctx.Err() != nil {
			return nil, ctx.Err()
		}
		return nil, errWorldDead
	case replyTransient, replyNotFound:
		return nil, errInjectedRPC
	}
	return new(big.Int).SetUint64(c.C.ChainID), nil
}

func (c *FakeClient) FilterLogs(ctx context.Context, q ethereum.FilterQuery) ([]types.Log, error) {
	desc := fmt.Sprintf("%s..%s", numDesc(q.FromBlock), numDesc(q.ToBlock))
	mode := c.W.park(ctx, c.Label, "FilterLogs", desc, c.Epoch)
	switch mode {
	case replyDead:
		if ctx != nil && ctx.Err() != nil {
			return nil, ctx.Err()
		}
		return nil, errWorldDead
	case replyTransient, replyNotFound:
		c.obs("FilterLogs", desc, mode, nil)
		return nil, errInjectedRPC
	case replyDeadline:
		c.obs("FilterLogs", desc, mode, nil)
		return nil, errInjectedTimeout
	}
	view, _, _ := c.view(mode)
	from, to := uint64(0), uint64(len(view)-1)
	if q.FromBlock != nil && q.FromBlock.Sign() >= 0 {
		from = q.FromBlock.Uint64()
	}
	if q.ToBlock != nil && q.ToBlock.Sign() >= 0 {
		to = q.ToBlock.Uint64()
	}
	logs := c.C.FilterLogs(view, from, to, q.Addresses)
	c.obs("FilterLogs", desc, mode, [2]uint64{from, to})
	return logs, nil
}

func (c *FakeClient) CallContract(ctx context.Context, call ethereum.CallMsg, blockNumber *big.Int) ([]byte, error) {
	to := common.Address{}
	if call.To != nil {
		to = *call.To
	}
	desc := fmt.Sprintf("%s %x @%s", to.Hex()[:8], call.Data[:min(4, len(call.Data))], numDesc(blockNumber))
	mode := c.W.park(ctx, c.Label, "CallContract", desc, c.Epoch)
	switch mode {
	case replyDead:
		if ctx != nil && ctx.Err() != nil {
			return nil, ctx.Err()
		}
		return nil, errWorldDead
	case replyTransient, replyNotFound:
		return nil, errInjectedRPC
	}
	view, fin, safe := c.view(mode)
	at := c.C.resolve(view, fin, safe, blockNumber)
	if at == nil {
		return nil, ethereum.NotFound
	}
	if c.C.CallFn == nil {
		return nil, errors.New("no contract at address")
	}
	out, err := c.C.CallFn(c.C, at, to, call.Data)
	c.obs("CallContract", desc, mode, out)
	return out, err
}

func (c *FakeClient) CodeAt(ctx context.Context, contract common.Address, blockNumber *big.Int) ([]byte, error) {
	return []byte{0x60}, nil
}

// Call serves debug_traceTransaction.
func (c *FakeClient) Call(result any, method string, args ...any) error {
	desc := method
	var txh common.Hash
	if len(args) > 0 {
		if h, ok := args[0].(common.Hash); ok {
			txh = h
			desc = method + " " + h.Hex()[:10]
		}
	}
	mode := c.W.park(context.Background(), c.Label, "Call", desc, c.Epoch)
	switch mode {
	case replyDead:
		return errWorldDead
	case replyTransient, replyNotFound:
		return errInjectedRPC
	}
	if method != "debug_traceTransaction" {
		return fmt.Errorf("method %s not served", method)
	}
	view, _, _ := c.view(mode)
	for i := len(view) - 1; i >= 0; i-- {
		if tr, ok := view[i].Traces[txh]; ok {
			b, err := json.Marshal(traceJSON(tr))
			if err != nil {
				return err
			}
			return json.Unmarshal(b, result)
		}
	}
	return fmt.Errorf("transaction %s not found", txh.Hex())
}

type traceJSONCall struct {
	From  common.Address  `json:"from"`
	To    common.Address  `json:"to"`
	Value string          `json:"value"`
	Err   *string         `json:"error,omitempty"`
	Input string          `json:"input"`
	Calls []traceJSONCall `json:"calls,omitempty"`
}

func traceJSON(t *TraceCall) traceJSONCall {
	o := traceJSONCall{From: t.From, To: t.To, Value: "0x0", Err: t.Err, Input: "0x" + common.Bytes2Hex(t.Input)}
	for i := range t.Calls {
		o.Calls = append(o.Calls, traceJSON(&t.Calls[i]))
	}
	return o
}

var errNotServed = errors.New("fake client: method not served")

func (c *FakeClient) SubscribeFilterLogs(ctx context.Context, q ethereum.FilterQuery, ch chan<- types.Log) (ethereum.Subscription, error) {
	return nil, errNotServed
}
func (c *FakeClient) BlockByHash(ctx context.Context, hash common.Hash) (*types.Block, error) {
	return nil, errNotServed
}
func (c *FakeClient) HeaderByHash(ctx context.Context, hash common.Hash) (*types.Header, error) {
	return nil, errNotServed
}
func (c *FakeClient) TransactionCount(ctx context.Context, blockHash common.Hash) (uint, error) {
	return 0, errNotServed
}
func (c *FakeClient) TransactionInBlock(ctx context.Context, blockHash common.Hash, index uint) (*types.Transaction, error) {
	return nil, errNotServed
}
func (c *FakeClient) SubscribeNewHead(ctx context.Context, ch chan<- *types.Header) (ethereum.Subscription, error) {
	return nil, errNotServed
}
func (c *FakeClient) PendingCodeAt(ctx context.Context, account common.Address) ([]byte, error) {
	return []byte{0x60}, nil
}
func (c *FakeClient) PendingNonceAt(ctx context.Context, account common.Address) (uint64, error) {
	return 0, errNotServed
}
func (c *FakeClient) SuggestGasPrice(ctx context.Context) (*big.Int, error) { return big.NewInt(1), nil }
func (c *FakeClient) SuggestGasTipCap(ctx context.Context) (*big.Int, error) {
	return big.NewInt(1), nil
}
func (c *FakeClient) EstimateGas(ctx context.Context, call ethereum.CallMsg) (uint64, error) {
	return 21000, nil
}
func (c *FakeClient) SendTransaction(ctx context.Context, tx *types.Transaction) error {
	return errNotServed
}

// ---------------------------------------------------------------- bubble

// InBubble runs f as the main goroutine of a synctest bubble. The
// end-of-bubble "blocked goroutines remain" panic (every aggkit store leaks its
// sql.DB pool goroutines) is recovered; any other panic is returned.
func InBubble(t *testing.T, f func()) (perr any) {
	defer func() {
		if r := recover(); r != nil {
			s := fmt.Sprint(r)
			if strings.Contains(s, "blocked goroutines remain") || strings.Contains(s, "deadlock") {
				return
			}
			perr = r
		}
	}()
	synctest.Test(t, func(t *testing.T) { f() })
	return nil
}

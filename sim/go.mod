module verif/sim

go 1.26

require (
	github.com/0xPolygon/cdk-contracts-tooling v0.0.4
	github.com/agglayer/aggkit v0.0.0
	github.com/ethereum/go-ethereum v1.15.5
	github.com/mattn/go-sqlite3 v1.14.28
	golang.org/x/crypto v0.39.0
)

require (
	github.com/0xPolygon/cdk-rpc v0.0.0-20250213125803-179882ad6229 // indirect
	github.com/bahlo/generic-list-go v0.2.0 // indirect
	github.com/bits-and-blooms/bitset v1.20.0 // indirect
	github.com/buger/jsonparser v1.1.1 // indirect
	github.com/consensys/bavard v0.1.27 // indirect
	github.com/consensys/gnark-crypto v0.16.0 // indirect
	github.com/crate-crypto/go-ipa v0.0.0-20240724233137-53bbb0ceb27a // indirect
	github.com/crate-crypto/go-kzg-4844 v1.1.0 // indirect
	github.com/davecgh/go-spew v1.1.2-0.20180830191138-d8f796af33cc // indirect
	github.com/deckarep/golang-set/v2 v2.6.0 // indirect
	github.com/dustin/go-humanize v1.0.1 // indirect
	github.com/ethereum/go-verkle v0.2.2 // indirect
	github.com/fsnotify/fsnotify v1.8.0 // indirect
	github.com/go-gorp/gorp/v3 v3.1.0 // indirect
	github.com/golang-collections/collections v0.0.0-20130729185459-604e922904d3 // indirect
	github.com/google/uuid v1.6.0 // indirect
	github.com/gorilla/websocket v1.5.3 // indirect
	github.com/hermeznetwork/tracerr v0.3.2 // indirect
	github.com/holiman/uint256 v1.3.2 // indirect
	github.com/iden3/go-iden3-crypto v0.0.17 // indirect
	github.com/invopop/jsonschema v0.13.0 // indirect
	github.com/logrusorgru/aurora v2.0.3+incompatible // indirect
	github.com/mailru/easyjson v0.9.0 // indirect
	github.com/mmcloughlin/addchain v0.4.0 // indirect
	github.com/pmezard/go-difflib v1.0.1-0.20181226105442-5d4384ee4fb2 // indirect
	github.com/remyoudompheng/bigfft v0.0.0-20230129092748-24d4a6f8daec // indirect
	github.com/rubenv/sql-migrate v1.8.0 // indirect
	github.com/russross/meddler v1.0.1 // indirect
	github.com/shirou/gopsutil v3.21.11+incompatible // indirect
	github.com/stretchr/objx v0.5.2 // indirect
	github.com/stretchr/testify v1.10.0 // indirect
	github.com/tklauser/go-sysconf v0.3.12 // indirect
	github.com/tklauser/numcpus v0.6.1 // indirect
	github.com/wk8/go-ordered-map/v2 v2.1.8 // indirect
	go.uber.org/multierr v1.10.0 // indirect
	go.uber.org/zap v1.27.0 // indirect
	golang.org/x/exp v0.0.0-20250408133849-7e4ce0ab07d0 // indirect
	golang.org/x/sync v0.15.0 // indirect
	golang.org/x/sys v0.33.0 // indirect
	gopkg.in/yaml.v3 v3.0.1 // indirect
	modernc.org/libc v1.65.10 // indirect
	modernc.org/mathutil v1.7.1 // indirect
	modernc.org/memory v1.11.0 // indirect
	modernc.org/sqlite v1.38.0 // indirect
	rsc.io/tmplfunc v0.0.3 // indirect
)

replace github.com/agglayer/aggkit => /repo

package sim

import (
	"encoding/json"
	"fmt"
	"os"
	"path/filepath"
	"time"
)

// PropSpec wires a property to its engine.
type PropSpec struct {
	ID     string
	Engine string
	Config func(prop string, r *Rand, tier string) map[string]int64
	Run    func(prop string, tr *Trace, sc *Script, rec *Recorder, scratch string) *Violation
	// Nontrivial says whether a finished run exercised the property's interesting ops.
	Nontrivial func(s Stats) bool
	OpLimit    func(cfg map[string]int64) int
}

var registry = map[string]*PropSpec{}

var minimisedInProcess int

func register(p *PropSpec) { registry[p.ID] = p }

func init() {
	opl := func(cfg map[string]int64) int { return int(cfg["ops"]) }
	register(&PropSpec{ID: "C04", Engine: "storesim", Config: StoreSimConfig, Run: RunStoreSim, OpLimit: opl,
		Nontrivial: func(s Stats) bool { return s["reorgs_dropping_blocks"] > 0 && s["twin_checks"] > 0 }})
	register(&PropSpec{ID: "C07", Engine: "storesim", Config: StoreSimConfig, Run: RunStoreSim, OpLimit: opl,
		Nontrivial: func(s Stats) bool {
			return s["fault_fired_stmt"]+s["fault_fired_commit"]+s["fault_fired_begin"]+s["fault_fired_diskfull"]+s["crash_images_mid_tx"] > 0
		}})
	register(&PropSpec{ID: "C08", Engine: "storesim", Config: StoreSimConfig, Run: RunStoreSim, OpLimit: opl,
		Nontrivial: func(s Stats) bool { return s["ref_checks"] > 0 && s["events"] > 2 }})
}

// ExecTrace runs one trace (generation when rng != nil, replay otherwise).
func ExecTrace(spec *PropSpec, tr *Trace, rng *Rand, keepLog bool, scratch string) (*RunResult, *Recorder) {
	rec := NewRecorder(keepLog)
	var sc *Script
	if rng != nil {
		sc = NewGenScript(tr, rng, spec.OpLimit(tr.Cfg))
	} else {
		sc = NewReplayScript(tr)
	}
	t0 := time.Now()
	var v *Violation
	func() {
		defer func() {
			if r := recover(); r != nil {
				v = &Violation{Oracle: "harness", Detail: fmt.Sprintf("panic: %v", r)}
			}
		}()
		v = spec.Run(spec.ID, tr, sc, rec, scratch)
	}()
	res := &RunResult{Property: spec.ID, Run: tr.Run, Seed: tr.Seed, Ops: len(tr.Ops), WallUs: time.Since(t0).Microseconds()}
	rec.Fill(res)
	res.SimTimeMs = rec.Stats["sim_ms"]
	res.Steps = rec.Stats["steps"]
	res.Nontrivial = spec.Nontrivial(rec.Stats)
	if v != nil {
		if v.Oracle == "harness" {
			res.Harness = v.Detail
		} else {
			res.Violation = v
		}
	}
	return res, rec
}

// RunOne generates and executes run #run of a property; on a violation it
// minimises and writes the replay file.
func RunOne(spec *PropSpec, master uint64, run int, tier string, keepLog bool, scratch, replayDir string) *RunResult {
	seed := DeriveSeed(master, run)
	rng := NewRand(seed)
	tr := &Trace{Property: spec.ID, Engine: spec.Engine, Seed: seed, Run: run, Tier: tier}
	tr.Cfg = spec.Config(spec.ID, rng, tier)
	res, _ := ExecTrace(spec, tr, rng, keepLog, scratch)
	if res.Harness != "" && spec.Engine == "storesim+evm" {
		// go-ethereum's transaction pool promotes transactions on goroutines of its own: under load a transaction
		// is, very rarely (about one run in 30000), sealed one block later than the harness expects, which the harness
		// reports as its own trouble ("unexpected ... log"). Harness trouble is never a verdict: the recorded operations
		// are executed again, and what a clean execution shows is what counts.
		for attempt := 0; attempt < 3 && res.Harness != ""; attempt++ {
			if r2, _ := ExecTrace(spec, tr.Clone(), nil, keepLog, scratch); r2.Harness == "" {
				r2.Stats["evm_harness_trouble_gone_on_reexecution"]++
				res = r2
			}
		}
	}
	if res.Violation != nil {
		tr.Violation = res.Violation
		same := func(c *Trace) *Violation {
			r, _ := ExecTrace(spec, c, nil, false, scratch)
			return r.Violation
		}
		// the replay of the recorded ops must reproduce before anything is reported
		// (a tree whose behaviour depends on something no seed controls, e.g. Go map iteration order, may need
		// several attempts; on a deterministic tree the first one reproduces)
		var v *Violation
		for attempt := 0; attempt < 6; attempt++ {
			if v = same(tr.Clone()); v != nil && v.Oracle == res.Violation.Oracle {
				break
			}
		}
		if v == nil || v.Oracle != res.Violation.Oracle {
			res.Harness = fmt.Sprintf("violation %q did not reproduce on in-process replay (got %v)", res.Violation.Oracle, v)
			res.Violation = nil
			return res
		}
		// bounded work per process (the node leaks file descriptors per run): only the
		// first few violations of a worker are minimised, later ones are saved as recorded
		m := tr
		minimisedInProcess++
		if minimisedInProcess <= 4 {
			m = Minimise(tr, same, 250)
		}
		os.MkdirAll(replayDir, 0o755)
		p := filepath.Join(replayDir, fmt.Sprintf("replay-%s-%d-%d.json", spec.ID, master, run))
		if err := m.Save(p); err == nil {
			res.Replay = p
		}
		res.Violation = m.Violation
		res.Sample = m
	} else if res.Nontrivial && run%16 == 0 {
		s := tr.Clone()
		if len(s.Ops) > 30 {
			s.Ops = s.Ops[:30]
		}
		res.Sample = s
	}
	return res
}

func writeJSONLine(f *os.File, v any) {
	b, _ := json.Marshal(v)
	f.Write(append(b, '\n'))
}

package sim

// Store adapters: the three real processors (bridge, L1 info tree, injected
// GER) behind one small interface, their event generators, their reference
// models and their observational dumps (every exported query of the facade).

import (
	"context"
	"encoding/binary"
	"encoding/json"
	"errors"
	"fmt"
	"math/big"
	"os"
	"sort"
	"strings"

	"github.com/agglayer/aggkit/bridgesync"
	"github.com/agglayer/aggkit/l1infotreesync"
	"github.com/agglayer/aggkit/lastgersync"
	aggsync "github.com/agglayer/aggkit/sync"
	"github.com/ethereum/go-ethereum/common"
)

var bg = context.Background()

// MBlock is a model block: what the chain says a block contains for a store.
type MBlock struct {
	Num    uint64
	Hash   common.Hash
	Events []any // typed events of the store (bridgesync.Event, l1infotreesync.Event, *lastgersync.Event)
	Tag    string
}

func blockHash(num uint64, salt uint64) common.Hash {
	var b [16]byte
	binary.BigEndian.PutUint64(b[:8], num)
	binary.BigEndian.PutUint64(b[8:], salt)
	return keccakBytes(b[:])
}

// Store is one real processor under test.
type Store interface {
	Kind() string
	Path() string
	Open() error // (re)open on the same file = restart
	Close()
	ProcessBlock(b MBlock) error
	// ProcessBlockCtx is ProcessBlock under the caller's context (cancellation mid-block)
	ProcessBlockCtx(ctx context.Context, b MBlock) error
	Reorg(first uint64) error
	LastProcessed() (uint64, error)
	IsHalted() bool
	// Dump runs every exported query over arguments derived from `hint`
	// (block numbers, indices, hashes of interest) and serialises the answers.
	Dump(h *DumpHint) string
}

// DumpHint lists the arguments the dump queries with (same for store and twin).
type DumpHint struct {
	MaxBlock  uint64
	MaxIndex  uint32
	Hashes    []common.Hash // roots / GERs of interest (incl. some that never existed)
	RollupIDs []uint32
	Heavy     bool // include proofs for every index
}

func errStr(err error) string {
	if err == nil {
		return "ok"
	}
	return "ERR:" + err.Error()
}

func js(v any) string {
	b, err := json.Marshal(v)
	if err != nil {
		return "JSONERR:" + err.Error()
	}
	return string(b)
}

// ============================================================ bridge store

type BridgeStore struct {
	path string
	P    *bridgesync.VerifProcessor
	F    *bridgesync.BridgeSync
}

func NewBridgeStore(path string) *BridgeStore { return &BridgeStore{path: path} }
func (s *BridgeStore) Kind() string           { return "bridge" }
func (s *BridgeStore) Path() string           { return s.path }
func (s *BridgeStore) Open() error {
	p, err := bridgesync.NewVerifProcessor(s.path, "bridge_sync_verif")
	if err != nil {
		return err
	}
	s.P = p
	s.F = p.Facade(1)
	return nil
}
func (s *BridgeStore) Close() {
	if s.P != nil {
		s.P.DB().Close()
		s.P = nil
	}
}
func (s *BridgeStore) ProcessBlockCtx(ctx context.Context, b MBlock) error {
	evs := make([]interface{}, len(b.Events))
	for i, e := range b.Events {
		ev := e.(bridgesync.Event)
		// hand a private copy to the store: ProcessBlock must not depend on aliasing
		evs[i] = cloneBridgeEvent(ev)
	}
	return s.P.ProcessBlock(ctx, aggsync.Block{Num: b.Num, Hash: b.Hash, Events: evs})
}
func (s *BridgeStore) ProcessBlock(b MBlock) error { return s.ProcessBlockCtx(bg, b) }
func (s *BridgeStore) Reorg(first uint64) error         { return s.P.Reorg(bg, first) }
func (s *BridgeStore) LastProcessed() (uint64, error)   { return s.P.GetLastProcessedBlock(bg) }
func (s *BridgeStore) IsHalted() bool                   { return s.P.IsHalted() }

func cloneBridgeEvent(e bridgesync.Event) bridgesync.Event {
	var o bridgesync.Event
	if e.Bridge != nil {
		c := *e.Bridge
		if c.Amount != nil {
			c.Amount = new(big.Int).Set(c.Amount)
		}
		o.Bridge = &c
	}
	if e.Claim != nil {
		c := *e.Claim
		if c.Amount != nil {
			c.Amount = new(big.Int).Set(c.Amount)
		}
		if c.GlobalIndex != nil {
			c.GlobalIndex = new(big.Int).Set(c.GlobalIndex)
		}
		o.Claim = &c
	}
	if e.TokenMapping != nil {
		c := *e.TokenMapping
		o.TokenMapping = &c
	}
	if e.LegacyTokenMigration != nil {
		c := *e.LegacyTokenMigration
		if c.Amount != nil {
			c.Amount = new(big.Int).Set(c.Amount)
		}
		o.LegacyTokenMigration = &c
	}
	if e.RemoveLegacyToken != nil {
		c := *e.RemoveLegacyToken
		o.RemoveLegacyToken = &c
	}
	return o
}

func (s *BridgeStore) Dump(h *DumpHint) string {
	var sb strings.Builder
	w := func(name string, v any, err error) {
		fmt.Fprintf(&sb, "%s => %s %s\n", name, errStr(err), js(v))
	}
	f := s.F
	lp, err := f.GetLastProcessedBlock(bg)
	w("GetLastProcessedBlock", lp, err)
	ranges := [][2]uint64{{0, h.MaxBlock}, {0, h.MaxBlock + 3}, {1, h.MaxBlock / 2}, {h.MaxBlock / 2, h.MaxBlock}, {h.MaxBlock, h.MaxBlock}, {h.MaxBlock + 1, h.MaxBlock + 1}, {lp, lp}, {0, lp}}
	for _, r := range ranges {
		b, err := f.GetBridges(bg, r[0], r[1])
		w(fmt.Sprintf("GetBridges(%d,%d)", r[0], r[1]), b, err)
		c, err := f.GetClaims(bg, r[0], r[1])
		w(fmt.Sprintf("GetClaims(%d,%d)", r[0], r[1]), c, err)
	}
	for _, ps := range []uint32{1, 3, 1000} {
		for page := uint32(1); page <= 3; page++ {
			b, n, err := f.GetBridgesPaged(bg, page, ps, nil, nil, "")
			w(fmt.Sprintf("GetBridgesPaged(%d,%d)", page, ps), []any{b, n}, err)
			c, n2, err := f.GetClaimsPaged(bg, page, ps, nil, "")
			w(fmt.Sprintf("GetClaimsPaged(%d,%d)", page, ps), []any{c, n2}, err)
			if ps == 1000 && page > 1 {
				break
			}
		}
	}
	for _, dc := range []uint64{0, 1, uint64(h.MaxIndex), uint64(h.MaxIndex) + 1} {
		dc := dc
		b, n, err := f.GetBridgesPaged(bg, 1, 10, &dc, nil, "")
		w(fmt.Sprintf("GetBridgesPaged(dc=%d)", dc), []any{b, n}, err)
	}
	b2, n2, err := f.GetBridgesPaged(bg, 1, 1000, nil, []uint32{0, 2}, "")
	w("GetBridgesPaged(net=0,2)", []any{b2, n2}, err)
	c2, n3, err := f.GetClaimsPaged(bg, 1, 1000, []uint32{0, 1}, "")
	w("GetClaimsPaged(net=0,1)", []any{c2, n3}, err)
	// token mappings: ORDER BY block_num DESC only -> compare as multiset within a block
	tm, ntm, err := f.GetTokenMappings(bg, 1, 100000)
	sort.SliceStable(tm, func(i, j int) bool {
		if tm[i].BlockNum != tm[j].BlockNum {
			return tm[i].BlockNum > tm[j].BlockNum
		}
		return tm[i].BlockPos < tm[j].BlockPos
	})
	w("GetTokenMappings", []any{tm, ntm}, err)
	_, _, err = f.GetTokenMappings(bg, 0, 10)
	w("GetTokenMappings(page0)", nil, err)
	for _, ps := range []uint32{2, 100000} {
		lm, nlm, err := f.GetLegacyTokenMigrations(bg, 1, ps)
		w(fmt.Sprintf("GetLegacyTokenMigrations(1,%d)", ps), []any{lm, nlm}, err)
	}
	for i := uint32(0); i <= h.MaxIndex+1; i++ {
		r, err := f.GetExitRootByIndex(bg, i)
		w(fmt.Sprintf("GetExitRootByIndex(%d)", i), r, err)
		if err == nil {
			rr, err := f.GetRootByLER(bg, r.Hash)
			w(fmt.Sprintf("GetRootByLER(idx %d)", i), rr, err)
			bn, err := f.GetBlockByLER(bg, r.Hash)
			w(fmt.Sprintf("GetBlockByLER(idx %d)", i), bn, err)
			if h.Heavy || i == h.MaxIndex || i%5 == 0 {
				for _, j := range []uint32{0, i / 2, i} {
					p, err := f.GetProof(bg, j, r.Hash)
					w(fmt.Sprintf("GetProof(%d,root %d)", j, i), p, err)
				}
			}
		}
	}
	for _, hh := range h.Hashes {
		r, err := f.GetBridgeRootByHash(bg, hh)
		w("GetBridgeRootByHash("+hh.Hex()[:10]+")", r, err)
	}
	return sb.String()
}

// BridgeModel is the reference for the bridge store.
type BridgeModel struct {
	Blocks []MBlock
	Tree   RefAppend
}

func (m *BridgeModel) Clone() *BridgeModel {
	return &BridgeModel{Blocks: append([]MBlock(nil), m.Blocks...), Tree: *m.Tree.Clone()}
}

func (m *BridgeModel) LastBlock() uint64 {
	if len(m.Blocks) == 0 {
		return 0
	}
	return m.Blocks[len(m.Blocks)-1].Num
}

func (m *BridgeModel) DepositCount() uint32 { return uint32(len(m.Tree.Leaves)) }

// refBridgeLeaf is the contract's leaf value, written independently of Bridge.Hash.
func refBridgeLeaf(leafType uint8, origNet uint32, origAddr common.Address, destNet uint32, destAddr common.Address, amount *big.Int, metadata []byte) common.Hash {
	var on, dn [4]byte
	binary.BigEndian.PutUint32(on[:], origNet)
	binary.BigEndian.PutUint32(dn[:], destNet)
	var am [32]byte
	if amount != nil {
		ab := amount.Bytes()
		copy(am[32-len(ab):], ab)
	}
	mh := keccakBytes(metadata)
	return keccakBytes([]byte{leafType}, on[:], origAddr[:], dn[:], destAddr[:], am[:], mh[:])
}

func (m *BridgeModel) Apply(b MBlock) {
	m.Blocks = append(m.Blocks, b)
	for _, e := range b.Events {
		ev := e.(bridgesync.Event)
		if ev.Bridge != nil {
			br := ev.Bridge
			m.Tree.Append(refBridgeLeaf(br.LeafType, br.OriginNetwork, br.OriginAddress, br.DestinationNetwork, br.DestinationAddress, br.Amount, br.Metadata))
		}
	}
}

// Rewind drops blocks >= first.
func (m *BridgeModel) Rewind(first uint64) int {
	n := len(m.Blocks)
	for n > 0 && m.Blocks[n-1].Num >= first {
		n--
	}
	dropped := len(m.Blocks) - n
	m.Blocks = m.Blocks[:n]
	cnt := 0
	for _, b := range m.Blocks {
		for _, e := range b.Events {
			if e.(bridgesync.Event).Bridge != nil {
				cnt++
			}
		}
	}
	m.Tree.Truncate(cnt)
	return dropped
}

var maxU256 = new(big.Int).Sub(new(big.Int).Lsh(big.NewInt(1), 256), big.NewInt(1))

func genAmount(r *Rand) *big.Int {
	switch r.Intn(8) {
	case 0:
		return big.NewInt(0)
	case 1:
		return new(big.Int).Set(maxU256)
	case 2:
		return new(big.Int).SetUint64(r.U64())
	case 3:
		return new(big.Int).Lsh(big.NewInt(1), uint(r.Intn(256)))
	default:
		return new(big.Int).SetBytes(r.Bytes(1 + r.Intn(32)))
	}
}

func genMeta(r *Rand) []byte {
	switch r.Intn(6) {
	case 0, 1:
		return []byte{}
	case 2:
		return r.Bytes(1)
	case 3:
		return r.Bytes(32)
	case 4:
		return r.Bytes(33 + r.Intn(200))
	default:
		return r.Bytes(1000 + r.Intn(3000))
	}
}

func genAddr(r *Rand) common.Address {
	if r.Intn(10) == 0 {
		return common.Address{}
	}
	return common.BytesToAddress(r.Bytes(20))
}

func genNet(r *Rand) uint32 {
	switch r.Intn(6) {
	case 0:
		return 0
	case 1:
		return 1
	case 2:
		return 0xFFFFFFFF
	default:
		return uint32(r.Intn(5))
	}
}

func genHash(r *Rand) common.Hash { return common.BytesToHash(r.Bytes(32)) }

// GenBridgeBlock derives a block for the bridge store from a sub-seed and the
// model state (deposit counts continue from the model).
func GenBridgeBlock(m *BridgeModel, seed uint64, gap int, maxEvents int, legacyAddrs []common.Address, allowRemove bool) MBlock {
	r := NewRand(seed)
	num := m.LastBlock() + 1 + uint64(gap)
	b := MBlock{Num: num, Hash: blockHash(num, seed)}
	n := 0
	switch r.Intn(10) {
	case 0, 1:
		n = 0
	case 2, 3, 4, 5:
		n = 1
	default:
		n = r.Range(2, max(2, maxEvents))
	}
	dc := m.DepositCount()
	ts := 1700000000 + num*12
	for i := 0; i < n; i++ {
		pos := uint64(i*2 + r.Intn(2))
		txh := genHash(r)
		switch k := r.Intn(100); {
		case k < 55:
			br := &bridgesync.Bridge{
				BlockNum: num, BlockPos: pos, FromAddress: genAddr(r), TxHash: txh, Calldata: r.Bytes(r.Intn(40)),
				BlockTimestamp: ts, LeafType: uint8(r.Intn(2)), OriginNetwork: genNet(r), OriginAddress: genAddr(r),
				DestinationNetwork: genNet(r), DestinationAddress: genAddr(r), Amount: genAmount(r), Metadata: genMeta(r),
				DepositCount: dc, IsNativeToken: r.Bool(50),
			}
			// the leaf value does not contain the deposit count: the same bridge made twice gives the
			// same leaf at two positions (same block or an older one), i.e. repeated nodes in the tree
			if r.Bool(14) {
				var prev []*bridgesync.Bridge
				for _, e := range b.Events {
					if pb := e.(bridgesync.Event).Bridge; pb != nil {
						prev = append(prev, pb)
					}
				}
				for i := len(m.Blocks) - 1; i >= 0 && len(prev) < 12; i-- {
					for _, e := range m.Blocks[i].Events {
						if pb := e.(bridgesync.Event).Bridge; pb != nil {
							prev = append(prev, pb)
						}
					}
				}
				if len(prev) > 0 {
					pb := prev[r.Intn(len(prev))]
					br.LeafType, br.OriginNetwork, br.OriginAddress = pb.LeafType, pb.OriginNetwork, pb.OriginAddress
					br.DestinationNetwork, br.DestinationAddress = pb.DestinationNetwork, pb.DestinationAddress
					br.Amount, br.Metadata = new(big.Int).Set(pb.Amount), append([]byte(nil), pb.Metadata...)
				}
			}
			b.Events = append(b.Events, bridgesync.Event{Bridge: br})
			dc++
		case k < 80:
			var pl, pr [32]common.Hash
			for j := range pl {
				pl[j] = genHash(r)
				pr[j] = genHash(r)
			}
			mer, rer := genHash(r), genHash(r)
			gi := bridgesync.GenerateGlobalIndex(r.Bool(50), uint32(r.Intn(4)), uint32(r.Intn(1000)))
			b.Events = append(b.Events, bridgesync.Event{Claim: &bridgesync.Claim{
				BlockNum: num, BlockPos: pos, FromAddress: genAddr(r), TxHash: txh, GlobalIndex: gi,
				OriginNetwork: genNet(r), OriginAddress: genAddr(r), DestinationAddress: genAddr(r), Amount: genAmount(r),
				ProofLocalExitRoot: pl, ProofRollupExitRoot: pr, MainnetExitRoot: mer, RollupExitRoot: rer,
				GlobalExitRoot: keccak2(mer, rer), DestinationNetwork: genNet(r), Metadata: genMeta(r), IsMessage: r.Bool(30),
				BlockTimestamp: ts,
			}})
		case k < 88:
			b.Events = append(b.Events, bridgesync.Event{TokenMapping: &bridgesync.TokenMapping{
				BlockNum: num, BlockPos: pos, BlockTimestamp: ts, TxHash: txh, OriginNetwork: genNet(r),
				OriginTokenAddress: genAddr(r), WrappedTokenAddress: genAddr(r), Metadata: genMeta(r), IsNotMintable: r.Bool(30),
				Calldata: r.Bytes(r.Intn(40)),
			}})
		case k < 95 || !allowRemove:
			la := legacyAddrs[r.Intn(len(legacyAddrs))]
			b.Events = append(b.Events, bridgesync.Event{LegacyTokenMigration: &bridgesync.LegacyTokenMigration{
				BlockNum: num, BlockPos: pos, BlockTimestamp: ts, TxHash: txh, Sender: genAddr(r), LegacyTokenAddress: la,
				UpdatedTokenAddress: genAddr(r), Amount: genAmount(r), Calldata: r.Bytes(r.Intn(40)),
			}})
		default:
			la := legacyAddrs[r.Intn(len(legacyAddrs))]
			b.Events = append(b.Events, bridgesync.Event{RemoveLegacyToken: &bridgesync.RemoveLegacyToken{
				BlockNum: num, BlockPos: pos, BlockTimestamp: ts, TxHash: txh, LegacyTokenAddress: la,
			}})
		}
	}
	return b
}

// CheckRef compares the bridge store against the reference model (roots,
// leaves, proofs, event lists) — independent of any twin store.
func (s *BridgeStore) CheckRef(m *BridgeModel, heavy bool, r *Rand) error {
	f := s.F
	lp, err := f.GetLastProcessedBlock(bg)
	if err != nil {
		return fmt.Errorf("GetLastProcessedBlock: %w", err)
	}
	if lp != m.LastBlock() {
		return fmt.Errorf("last processed block %d, reference %d", lp, m.LastBlock())
	}
	var wantB []*bridgesync.Bridge
	var wantC []*bridgesync.Claim
	for _, b := range m.Blocks {
		for _, e := range b.Events {
			ev := e.(bridgesync.Event)
			if ev.Bridge != nil {
				wantB = append(wantB, ev.Bridge)
			}
			if ev.Claim != nil {
				wantC = append(wantC, ev.Claim)
			}
		}
	}
	sortB := func(x []*bridgesync.Bridge) {
		sort.SliceStable(x, func(i, j int) bool {
			if x[i].BlockNum != x[j].BlockNum {
				return x[i].BlockNum < x[j].BlockNum
			}
			return x[i].BlockPos < x[j].BlockPos
		})
	}
	sortB(wantB)
	sort.SliceStable(wantC, func(i, j int) bool {
		if wantC[i].BlockNum != wantC[j].BlockNum {
			return wantC[i].BlockNum < wantC[j].BlockNum
		}
		return wantC[i].BlockPos < wantC[j].BlockPos
	})
	if lp > 0 || len(m.Blocks) > 0 {
		got, err := f.GetBridges(bg, 0, lp)
		if err != nil {
			return fmt.Errorf("GetBridges(0,%d): %w", lp, err)
		}
		if len(got) != len(wantB) {
			return fmt.Errorf("GetBridges(0,%d) returned %d bridges, reference %d", lp, len(got), len(wantB))
		}
		for i := range got {
			if js(got[i]) != js(*wantB[i]) {
				return fmt.Errorf("bridge %d differs: got %s want %s", i, js(got[i]), js(*wantB[i]))
			}
		}
		gotC, err := f.GetClaims(bg, 0, lp)
		if err != nil {
			return fmt.Errorf("GetClaims(0,%d): %w", lp, err)
		}
		if len(gotC) != len(wantC) {
			return fmt.Errorf("GetClaims(0,%d) returned %d claims, reference %d", lp, len(gotC), len(wantC))
		}
		for i := range gotC {
			if js(gotC[i]) != js(*wantC[i]) {
				return fmt.Errorf("claim %d differs: got %s want %s", i, js(gotC[i]), js(*wantC[i]))
			}
		}
	}
	n := len(m.Tree.Leaves)
	for i := 0; i < n; i++ {
		root, err := f.GetExitRootByIndex(bg, uint32(i))
		if err != nil {
			return fmt.Errorf("GetExitRootByIndex(%d): %w", i, err)
		}
		if root.Hash != m.Tree.Roots[i] {
			return fmt.Errorf("exit root for deposit count %d is %s, reference %s", i, root.Hash.Hex(), m.Tree.Roots[i].Hex())
		}
		if root.BlockNum != wantB[i].BlockNum || root.Index != uint32(i) {
			return fmt.Errorf("root row %d: block %d index %d, want block %d", i, root.BlockNum, root.Index, wantB[i].BlockNum)
		}
		if h := wantB[i].Hash(); h != m.Tree.Leaves[i] {
			return fmt.Errorf("Bridge.Hash() for deposit %d = %s, contract leaf value %s", i, h.Hex(), m.Tree.Leaves[i].Hex())
		}
	}
	if _, err := f.GetExitRootByIndex(bg, uint32(n)); err == nil {
		return fmt.Errorf("GetExitRootByIndex(%d) answers but only %d deposits exist", n, n)
	}
	// proofs: (root i, index j<=i)
	if n > 0 {
		pairs := [][2]int{}
		if heavy && n <= 12 {
			for i := 0; i < n; i++ {
				for j := 0; j <= i; j++ {
					pairs = append(pairs, [2]int{i, j})
				}
			}
		} else {
			k := 6
			if heavy {
				k = 24
			}
			for t := 0; t < k; t++ {
				i := r.Intn(n)
				pairs = append(pairs, [2]int{i, r.Intn(i + 1)})
			}
			pairs = append(pairs, [2]int{n - 1, n - 1}, [2]int{n - 1, 0})
		}
		for _, p := range pairs {
			i, j := p[0], p[1]
			proof, err := f.GetProof(bg, uint32(j), m.Tree.Roots[i])
			if err != nil {
				return fmt.Errorf("GetProof(%d, root %d): %w", j, i, err)
			}
			if got := RefVerify(m.Tree.Leaves[j], proof, uint32(j)); got != m.Tree.Roots[i] {
				return fmt.Errorf("proof for index %d under root of count %d does not verify: %s != %s", j, i, got.Hex(), m.Tree.Roots[i].Hex())
			}
		}
	}
	return nil
}

// ============================================================ L1 info store

type L1Store struct {
	path string
	P    *l1infotreesync.VerifProcessor
	F    *l1infotreesync.L1InfoTreeSync
	// LooseLast: the last processed block may be an empty block above the model's last event block
	LooseLast bool
}

func NewL1Store(path string) *L1Store { return &L1Store{path: path} }
func (s *L1Store) Kind() string       { return "l1info" }
func (s *L1Store) Path() string       { return s.path }
func (s *L1Store) Open() error {
	p, err := l1infotreesync.NewVerifProcessor(s.path)
	if err != nil {
		return err
	}
	s.P = p
	s.F = p.Facade()
	return nil
}
func (s *L1Store) Close() {
	if s.P != nil {
		s.P.DB().Close()
		s.P = nil
	}
}
func (s *L1Store) ProcessBlockCtx(ctx context.Context, b MBlock) error {
	evs := make([]interface{}, len(b.Events))
	for i, e := range b.Events {
		ev := e.(l1infotreesync.Event)
		var o l1infotreesync.Event
		if ev.UpdateL1InfoTree != nil {
			c := *ev.UpdateL1InfoTree
			o.UpdateL1InfoTree = &c
		}
		if ev.UpdateL1InfoTreeV2 != nil {
			c := *ev.UpdateL1InfoTreeV2
			o.UpdateL1InfoTreeV2 = &c
		}
		if ev.VerifyBatches != nil {
			c := *ev.VerifyBatches
			o.VerifyBatches = &c
		}
		if ev.InitL1InfoRootMap != nil {
			c := *ev.InitL1InfoRootMap
			o.InitL1InfoRootMap = &c
		}
		evs[i] = o
	}
	return s.P.ProcessBlock(ctx, aggsync.Block{Num: b.Num, Hash: b.Hash, Events: evs})
}
func (s *L1Store) ProcessBlock(b MBlock) error { return s.ProcessBlockCtx(bg, b) }
func (s *L1Store) Reorg(first uint64) error       { return s.P.Reorg(bg, first) }
func (s *L1Store) LastProcessed() (uint64, error) { return s.P.GetLastProcessedBlock(bg) }
func (s *L1Store) IsHalted() bool                 { return s.P.IsHalted() }

func (s *L1Store) Dump(h *DumpHint) string {
	var sb strings.Builder
	w := func(name string, v any, err error) {
		fmt.Fprintf(&sb, "%s => %s %s\n", name, errStr(err), js(v))
	}
	f := s.F
	lp, err := f.GetLastProcessedBlock(bg)
	w("GetLastProcessedBlock", lp, err)
	for i := uint32(0); i <= h.MaxIndex+1; i++ {
		info, err := f.GetInfoByIndex(bg, i)
		w(fmt.Sprintf("GetInfoByIndex(%d)", i), info, err)
		root, err := f.GetL1InfoTreeRootByIndex(bg, i)
		w(fmt.Sprintf("GetL1InfoTreeRootByIndex(%d)", i), root, err)
		p, r2, err := f.GetL1InfoTreeMerkleProof(bg, i)
		w(fmt.Sprintf("GetL1InfoTreeMerkleProof(%d)", i), []any{p, r2}, err)
		if err == nil && (h.Heavy || i%4 == 0 || i == h.MaxIndex) {
			for _, j := range []uint32{0, i / 2, i} {
				pp, err := f.GetL1InfoTreeMerkleProofFromIndexToRoot(bg, j, root.Hash)
				w(fmt.Sprintf("ProofFromIndexToRoot(%d, root %d)", j, i), pp, err)
			}
		}
		if info != nil && err == nil {
			byGer, err := f.GetInfoByGlobalExitRoot(info.GlobalExitRoot)
			w(fmt.Sprintf("GetInfoByGlobalExitRoot(idx %d)", i), byGer, err)
			fr, err := f.GetFirstL1InfoWithRollupExitRoot(info.RollupExitRoot)
			w(fmt.Sprintf("GetFirstL1InfoWithRollupExitRoot(idx %d)", i), fr, err)
		}
	}
	for b := uint64(0); b <= h.MaxBlock+2; b++ {
		if !(h.Heavy || b < 4 || b+3 > h.MaxBlock || b%3 == 0) {
			continue
		}
		li, err := f.GetLatestInfoUntilBlock(bg, b)
		w(fmt.Sprintf("GetLatestInfoUntilBlock(%d)", b), li, err)
		fa, err := f.GetFirstInfoAfterBlock(b)
		w(fmt.Sprintf("GetFirstInfoAfterBlock(%d)", b), fa, err)
		pb, ph, err := f.GetProcessedBlockUntil(bg, b)
		w(fmt.Sprintf("GetProcessedBlockUntil(%d)", b), []any{pb, ph}, err)
		for _, rid := range h.RollupIDs {
			v, err := f.GetFirstVerifiedBatchesAfterBlock(rid, b)
			w(fmt.Sprintf("GetFirstVerifiedBatchesAfterBlock(%d,%d)", rid, b), v, err)
		}
	}
	li, err := f.GetLastInfo()
	w("GetLastInfo", li, err)
	fi, err := f.GetFirstInfo()
	w("GetFirstInfo", fi, err)
	lr, err := f.GetLastL1InfoTreeRoot(bg)
	w("GetLastL1InfoTreeRoot", lr, err)
	rr, err := f.GetLastRollupExitRoot(bg)
	w("GetLastRollupExitRoot", rr, err)
	im, err := f.GetInitL1InfoRootMap(bg)
	w("GetInitL1InfoRootMap", im, err)
	for _, rid := range h.RollupIDs {
		v, err := f.GetLastVerifiedBatches(rid)
		w(fmt.Sprintf("GetLastVerifiedBatches(%d)", rid), v, err)
		v2, err := f.GetFirstVerifiedBatches(rid)
		w(fmt.Sprintf("GetFirstVerifiedBatches(%d)", rid), v2, err)
		if err == nil && rr.Hash != (common.Hash{}) {
			p, err := f.GetRollupExitTreeMerkleProof(bg, rid, rr.Hash)
			w(fmt.Sprintf("GetRollupExitTreeMerkleProof(%d,last)", rid), p, err)
			l, err := f.GetLocalExitRoot(bg, rid, rr.Hash)
			w(fmt.Sprintf("GetLocalExitRoot(%d,last)", rid), l, err)
		}
	}
	for _, hh := range h.Hashes {
		byGer, err := f.GetInfoByGlobalExitRoot(hh)
		w("GetInfoByGlobalExitRoot("+hh.Hex()[:10]+")", byGer, err)
	}
	return sb.String()
}

// L1Leaf is a reference L1 info tree leaf.
type L1Leaf struct {
	Block, Pos uint64
	Index      uint32
	MER, RER   common.Hash
	GER        common.Hash
	Parent     common.Hash
	Timestamp  uint64
	Hash       common.Hash
}

type L1VB struct {
	Block, Pos uint64
	RollupID   uint32
	ExitRoot   common.Hash
	NewRER     common.Hash // rollup exit tree root after this update
}

// L1Model is the reference for the L1 info store.
type L1Model struct {
	Blocks  []MBlock
	Leaves  []L1Leaf
	Tree    RefAppend
	VBs     []L1VB // effective (stored) verify-batches updates only
	Rollup  *RefSparse
	InitSet bool
	InitBlk uint64
	GERs    map[common.Hash]bool
}

func NewL1Model() *L1Model { return &L1Model{Rollup: NewRefSparse(), GERs: map[common.Hash]bool{}} }

func (m *L1Model) LastBlock() uint64 {
	if len(m.Blocks) == 0 {
		return 0
	}
	return m.Blocks[len(m.Blocks)-1].Num
}

func refL1LeafHash(ger, parent common.Hash, ts uint64) common.Hash {
	var t [8]byte
	binary.BigEndian.PutUint64(t[:], ts)
	return keccakBytes(ger[:], parent[:], t[:])
}

func (m *L1Model) Apply(b MBlock) {
	m.Blocks = append(m.Blocks, b)
	for _, e := range b.Events {
		ev := e.(l1infotreesync.Event)
		if u := ev.UpdateL1InfoTree; u != nil {
			ger := keccak2(u.MainnetExitRoot, u.RollupExitRoot)
			l := L1Leaf{Block: b.Num, Pos: u.BlockPosition, Index: uint32(len(m.Leaves)), MER: u.MainnetExitRoot, RER: u.RollupExitRoot,
				GER: ger, Parent: u.ParentHash, Timestamp: u.Timestamp}
			l.Hash = refL1LeafHash(ger, u.ParentHash, u.Timestamp)
			m.Leaves = append(m.Leaves, l)
			m.Tree.Append(l.Hash)
			m.GERs[ger] = true
		}
		if v := ev.VerifyBatches; v != nil {
			if v.ExitRoot == (common.Hash{}) {
				continue
			}
			if cur, ok := m.Rollup.Leaves[v.RollupID-1]; ok && cur == v.ExitRoot {
				continue
			}
			m.Rollup.Set(v.RollupID-1, v.ExitRoot)
			m.VBs = append(m.VBs, L1VB{Block: b.Num, Pos: v.BlockPosition, RollupID: v.RollupID, ExitRoot: v.ExitRoot, NewRER: m.Rollup.Root()})
		}
		if ev.InitL1InfoRootMap != nil {
			m.InitSet = true
			m.InitBlk = b.Num
		}
	}
}

// Rebuild recomputes the model from its (already truncated) block list.
func (m *L1Model) Rewind(first uint64) int {
	n := len(m.Blocks)
	for n > 0 && m.Blocks[n-1].Num >= first {
		n--
	}
	dropped := len(m.Blocks) - n
	keep := append([]MBlock(nil), m.Blocks[:n]...)
	*m = *NewL1Model()
	for _, b := range keep {
		m.Apply(b)
	}
	return dropped
}

// GenL1Block derives a block for the L1 info store. wrongV2 corrupts the
// announced root (used by C14 only).
func GenL1Block(m *L1Model, seed uint64, gap int, maxEvents int, wrongV2 bool) MBlock {
	r := NewRand(seed)
	num := m.LastBlock() + 1 + uint64(gap)
	b := MBlock{Num: num, Hash: blockHash(num, seed)}
	parent := blockHash(num-1, seed^0x55)
	ts := 1700000000 + num*12 + uint64(r.Intn(5))
	n := 0
	switch r.Intn(10) {
	case 0, 1:
		n = 0
	case 2, 3, 4, 5:
		n = 1
	default:
		n = r.Range(2, max(2, maxEvents))
	}
	tmp := m.Tree.Clone()
	pos := uint64(0)
	curRollup := m.Rollup.Clone()
	seenRoots := map[common.Hash]bool{}
	for _, v := range m.VBs {
		seenRoots[v.NewRER] = true
	}
	for i := 0; i < n; i++ {
		pos += uint64(1 + r.Intn(2))
		switch k := r.Intn(100); {
		case k < 50:
			var mer, rer common.Hash
			for {
				mer, rer = genHash(r), genHash(r)
				if r.Intn(4) == 0 && len(m.Leaves) > 0 {
					rer = m.Leaves[r.Intn(len(m.Leaves))].RER // repeated RER, new MER
				}
				if !m.GERs[keccak2(mer, rer)] {
					break
				}
			}
			b.Events = append(b.Events, l1infotreesync.Event{UpdateL1InfoTree: &l1infotreesync.UpdateL1InfoTree{
				BlockPosition: pos, MainnetExitRoot: mer, RollupExitRoot: rer, ParentHash: parent, Timestamp: ts}})
			root := tmp.Append(refL1LeafHash(keccak2(mer, rer), parent, ts))
			if r.Bool(70) || wrongV2 {
				pos++
				ev := &l1infotreesync.UpdateL1InfoTreeV2{CurrentL1InfoRoot: root, LeafCount: uint32(len(tmp.Leaves)), Blockhash: parent, MinTimestamp: ts}
				if wrongV2 {
					if r.Bool(50) {
						ev.CurrentL1InfoRoot = genHash(r)
					} else {
						ev.LeafCount++
					}
					wrongV2 = false
				}
				b.Events = append(b.Events, l1infotreesync.Event{UpdateL1InfoTreeV2: ev})
			}
		case k < 92:
			rid := uint32(1 + r.Intn(4))
			if r.Intn(12) == 0 {
				rid = uint32(1 + r.Intn(1<<20))
			}
			var er common.Hash
			switch r.Intn(7) {
			case 0:
				er = common.Hash{}
			case 1:
				if cur, ok := curRollup.Leaves[rid-1]; ok {
					er = cur
				} else {
					er = genHash(r)
				}
			case 2:
				// a position goes back to a value it (or another position) held before: repeated
				// nodes low in the updatable tree under a new root
				er = genHash(r)
				if len(m.VBs) > 0 {
					pv := m.VBs[r.Intn(len(m.VBs))]
					if r.Bool(70) {
						rid = pv.RollupID
					}
					er = pv.ExitRoot
				}
			default:
				er = genHash(r)
			}
			if er != (common.Hash{}) {
				if cur, ok := curRollup.Leaves[rid-1]; !ok || cur != er {
					// the rollup exit tree keys its roots by hash: a history that brings the WHOLE tree back to
					// an earlier root is refused by the store (outside the properties; see DESIGN 14) - not generated
					t := curRollup.Clone()
					t.Set(rid-1, er)
					nr := t.Root()
					for seenRoots[nr] {
						er = genHash(r)
						t.Set(rid-1, er)
						nr = t.Root()
					}
					seenRoots[nr] = true
				}
				curRollup.Set(rid-1, er)
			}
			b.Events = append(b.Events, l1infotreesync.Event{VerifyBatches: &l1infotreesync.VerifyBatches{
				BlockPosition: pos, RollupID: rid, NumBatch: r.U64() % 100000, StateRoot: genHash(r), ExitRoot: er, Aggregator: genAddr(r)}})
		default:
			if !m.InitSet {
				already := false
				for _, e := range b.Events {
					if e.(l1infotreesync.Event).InitL1InfoRootMap != nil {
						already = true
					}
				}
				if !already {
					b.Events = append(b.Events, l1infotreesync.Event{InitL1InfoRootMap: &l1infotreesync.InitL1InfoRootMap{
						LeafCount: uint32(r.Intn(100)), CurrentL1InfoRoot: genHash(r)}})
				}
			}
		}
	}
	return b
}

// CheckRef compares the L1 info store with the reference model.
func (s *L1Store) CheckRef(m *L1Model, heavy bool, r *Rand) error {
	f := s.F
	lp, err := f.GetLastProcessedBlock(bg)
	if err != nil {
		return fmt.Errorf("GetLastProcessedBlock: %w", err)
	}
	if lp != m.LastBlock() && !(s.LooseLast && lp > m.LastBlock()) {
		return fmt.Errorf("last processed block %d, reference %d", lp, m.LastBlock())
	}
	n := len(m.Leaves)
	for i := 0; i < n; i++ {
		want := m.Leaves[i]
		info, err := f.GetInfoByIndex(bg, uint32(i))
		if err != nil {
			return fmt.Errorf("GetInfoByIndex(%d): %w", i, err)
		}
		if info.BlockNumber != want.Block || info.BlockPosition != want.Pos || info.L1InfoTreeIndex != want.Index ||
			info.MainnetExitRoot != want.MER || info.RollupExitRoot != want.RER || info.GlobalExitRoot != want.GER ||
			info.PreviousBlockHash != want.Parent || info.Timestamp != want.Timestamp || info.Hash != want.Hash {
			return fmt.Errorf("L1 info leaf %d differs: got %s want %+v", i, js(info), want)
		}
		byGer, err := f.GetInfoByGlobalExitRoot(want.GER)
		if err != nil || byGer.L1InfoTreeIndex != want.Index {
			return fmt.Errorf("GetInfoByGlobalExitRoot(leaf %d): err=%v got=%s", i, err, js(byGer))
		}
		root, err := f.GetL1InfoTreeRootByIndex(bg, uint32(i))
		if err != nil {
			return fmt.Errorf("GetL1InfoTreeRootByIndex(%d): %w", i, err)
		}
		if root.Hash != m.Tree.Roots[i] {
			return fmt.Errorf("L1 info root for index %d is %s, reference %s", i, root.Hash.Hex(), m.Tree.Roots[i].Hex())
		}
	}
	if _, err := f.GetInfoByIndex(bg, uint32(n)); err == nil {
		return fmt.Errorf("GetInfoByIndex(%d) answers but only %d leaves exist", n, n)
	}
	if n > 0 {
		k := 5
		if heavy {
			k = 20
		}
		for t := 0; t < k; t++ {
			i := r.Intn(n)
			j := r.Intn(i + 1)
			if t == 0 {
				i, j = n-1, n-1
			}
			proof, err := f.GetL1InfoTreeMerkleProofFromIndexToRoot(bg, uint32(j), m.Tree.Roots[i])
			if err != nil {
				return fmt.Errorf("GetL1InfoTreeMerkleProofFromIndexToRoot(%d, root %d): %w", j, i, err)
			}
			if got := RefVerify(m.Leaves[j].Hash, proof, uint32(j)); got != m.Tree.Roots[i] {
				return fmt.Errorf("L1 info proof for index %d under root %d does not verify", j, i)
			}
			p2, r2, err := f.GetL1InfoTreeMerkleProof(bg, uint32(i))
			if err != nil {
				return fmt.Errorf("GetL1InfoTreeMerkleProof(%d): %w", i, err)
			}
			if got := RefVerify(m.Leaves[i].Hash, p2, uint32(i)); got != r2.Hash || r2.Hash != m.Tree.Roots[i] {
				return fmt.Errorf("GetL1InfoTreeMerkleProof(%d) does not verify to its root", i)
			}
		}
	}
	// rollup exit tree: every recorded update's root, leaf lookups and proofs under historical roots
	rt := NewRefSparse()
	for i, vb := range m.VBs {
		rt.Set(vb.RollupID-1, vb.ExitRoot)
		if !(heavy || i+3 >= len(m.VBs) || r.Intn(4) == 0) {
			continue
		}
		root := rt.Root()
		if root != vb.NewRER {
			return fmt.Errorf("internal: reference rollup root mismatch")
		}
		ids := make([]uint32, 0, len(rt.Leaves))
		for k := range rt.Leaves {
			ids = append(ids, k)
		}
		sort.Slice(ids, func(a, b int) bool { return ids[a] < ids[b] })
		for _, id := range ids {
			leaf, err := f.GetLocalExitRoot(bg, id+1, root)
			if err != nil {
				return fmt.Errorf("GetLocalExitRoot(rollup %d, root after update %d): %w", id+1, i, err)
			}
			if leaf != rt.Leaves[id] {
				return fmt.Errorf("GetLocalExitRoot(rollup %d, root after update %d) = %s, reference %s", id+1, i, leaf.Hex(), rt.Leaves[id].Hex())
			}
			proof, err := f.GetRollupExitTreeMerkleProof(bg, id+1, root)
			if err != nil {
				return fmt.Errorf("GetRollupExitTreeMerkleProof(rollup %d, update %d): %w", id+1, i, err)
			}
			if got := RefVerify(leaf, proof, id); got != root {
				return fmt.Errorf("rollup exit proof for rollup %d under root after update %d does not verify", id+1, i)
			}
		}
	}
	if len(m.VBs) > 0 {
		last, err := f.GetLastRollupExitRoot(bg)
		if err != nil {
			return fmt.Errorf("GetLastRollupExitRoot: %w", err)
		}
		if last.Hash != m.VBs[len(m.VBs)-1].NewRER {
			return fmt.Errorf("last rollup exit root %s, reference %s", last.Hash.Hex(), m.VBs[len(m.VBs)-1].NewRER.Hex())
		}
		// last non-zero exit root per rollup and stored verify_batches rows
		lastBy := map[uint32]L1VB{}
		for _, vb := range m.VBs {
			lastBy[vb.RollupID] = vb
		}
		ids := make([]uint32, 0)
		for k := range lastBy {
			ids = append(ids, k)
		}
		sort.Slice(ids, func(a, b int) bool { return ids[a] < ids[b] })
		for _, id := range ids {
			v, err := f.GetLastVerifiedBatches(id)
			if err != nil {
				return fmt.Errorf("GetLastVerifiedBatches(%d): %w", id, err)
			}
			w := lastBy[id]
			if v.ExitRoot != w.ExitRoot || v.RollupExitRoot != w.NewRER || v.BlockNumber != w.Block || v.BlockPosition != w.Pos {
				return fmt.Errorf("GetLastVerifiedBatches(%d) = %s, reference %+v", id, js(v), w)
			}
		}
	}
	return nil
}

// ============================================================ injected GER store

type GERStore struct {
	path string
	P    *lastgersync.VerifProcessor
	F    *lastgersync.LastGERSync
}

func NewGERStore(path string) *GERStore { return &GERStore{path: path} }
func (s *GERStore) Kind() string        { return "lastger" }
func (s *GERStore) Path() string        { return s.path }
func (s *GERStore) Open() error {
	p, err := lastgersync.NewVerifProcessor(s.path)
	if err != nil {
		return err
	}
	s.P = p
	s.F = p.Facade()
	return nil
}
func (s *GERStore) Close() {
	if s.P != nil {
		s.P.DB().Close()
		s.P = nil
	}
}
func (s *GERStore) ProcessBlockCtx(ctx context.Context, b MBlock) error {
	evs := make([]interface{}, len(b.Events))
	for i, e := range b.Events {
		ev := e.(*lastgersync.Event)
		o := &lastgersync.Event{}
		if ev.GERInfo != nil {
			c := *ev.GERInfo
			o.GERInfo = &c
		}
		if ev.GEREvent != nil {
			c := *ev.GEREvent
			o.GEREvent = &c
		}
		evs[i] = o
	}
	return s.P.ProcessBlock(ctx, aggsync.Block{Num: b.Num, Hash: b.Hash, Events: evs})
}
func (s *GERStore) ProcessBlock(b MBlock) error { return s.ProcessBlockCtx(bg, b) }
func (s *GERStore) Reorg(first uint64) error       { return s.P.Reorg(bg, first) }
func (s *GERStore) LastProcessed() (uint64, error) { return s.P.GetLastProcessedBlock(bg) }
func (s *GERStore) IsHalted() bool                 { return false }

func (s *GERStore) Dump(h *DumpHint) string {
	var sb strings.Builder
	lp, err := s.F.GetLastProcessedBlock(bg)
	fmt.Fprintf(&sb, "GetLastProcessedBlock => %s %d\n", errStr(err), lp)
	for i := uint32(0); i <= h.MaxIndex+2; i++ {
		g, err := s.F.GetFirstGERAfterL1InfoTreeIndex(bg, i)
		fmt.Fprintf(&sb, "GetFirstGERAfterL1InfoTreeIndex(%d) => %s %s\n", i, errStr(err), js(g))
	}
	return sb.String()
}

type GERRow struct {
	Block uint64
	GER   common.Hash
	Index uint32
}

// GERModel is the reference for the injected-GER store.
type GERModel struct {
	Blocks []MBlock
}

func (m *GERModel) LastBlock() uint64 {
	if len(m.Blocks) == 0 {
		return 0
	}
	return m.Blocks[len(m.Blocks)-1].Num
}
func (m *GERModel) Apply(b MBlock) { m.Blocks = append(m.Blocks, b) }
func (m *GERModel) Rewind(first uint64) int {
	n := len(m.Blocks)
	for n > 0 && m.Blocks[n-1].Num >= first {
		n--
	}
	d := len(m.Blocks) - n
	m.Blocks = m.Blocks[:n]
	return d
}

// Present returns the injected and not removed GERs of the canonical chain.
func (m *GERModel) Present() []GERRow {
	rows := []GERRow{}
	for _, b := range m.Blocks {
		for _, e := range b.Events {
			ev := e.(*lastgersync.Event)
			switch {
			case ev.GERInfo != nil:
				rows = append(rows, GERRow{b.Num, ev.GERInfo.GlobalExitRoot, ev.GERInfo.L1InfoTreeIndex})
			case ev.GEREvent != nil && !ev.GEREvent.IsRemove:
				rows = append(rows, GERRow{b.Num, ev.GEREvent.GlobalExitRoot, ev.GEREvent.L1InfoTreeIndex})
			case ev.GEREvent != nil && ev.GEREvent.IsRemove:
				k := rows[:0]
				for _, r := range rows {
					if r.GER != ev.GEREvent.GlobalExitRoot {
						k = append(k, r)
					}
				}
				rows = k
			}
		}
	}
	return rows
}

func (m *GERModel) MaxIndex() uint32 {
	var mx uint32
	for _, b := range m.Blocks {
		for _, e := range b.Events {
			ev := e.(*lastgersync.Event)
			if ev.GERInfo != nil && ev.GERInfo.L1InfoTreeIndex > mx {
				mx = ev.GERInfo.L1InfoTreeIndex
			}
			if ev.GEREvent != nil && ev.GEREvent.L1InfoTreeIndex > mx {
				mx = ev.GEREvent.L1InfoTreeIndex
			}
		}
	}
	return mx
}

// GenGERBlock derives a block for the injected-GER store: at most one event.
// Index space is small so that ties / removals / re-insertions happen.
func GenGERBlock(m *GERModel, seed uint64, gap int, allowRemove bool) MBlock {
	r := NewRand(seed)
	num := m.LastBlock() + 1 + uint64(gap)
	b := MBlock{Num: num, Hash: blockHash(num, seed)}
	present := m.Present()
	used := map[uint32]bool{}
	for _, p := range present {
		used[p.Index] = true
	}
	gerOf := func(idx uint32) common.Hash { return keccakBytes([]byte("ger"), []byte{byte(idx), byte(idx >> 8)}) }
	switch k := r.Intn(10); {
	case k < 2:
	case len(present) > 0 && r.Bool(15):
		// the same GER reported again in a later block (the FEP downloader reports the greatest injected GER on
		// every block): a second row for a GER that already has one
		pr := present[r.Intn(len(present))]
		if r.Bool(50) {
			b.Events = []any{&lastgersync.Event{GERInfo: &lastgersync.GlobalExitRootInfo{GlobalExitRoot: pr.GER, L1InfoTreeIndex: pr.Index}}}
		} else {
			b.Events = []any{&lastgersync.Event{GEREvent: &lastgersync.GEREvent{BlockNum: num, GlobalExitRoot: pr.GER, L1InfoTreeIndex: pr.Index}}}
		}
	case k < 8 || len(present) == 0 || !allowRemove:
		idx := uint32(r.Intn(24))
		for t := 0; used[idx] && t < 40; t++ {
			idx = uint32(r.Intn(24 + t))
		}
		if used[idx] {
			break
		}
		if r.Bool(50) {
			b.Events = []any{&lastgersync.Event{GERInfo: &lastgersync.GlobalExitRootInfo{GlobalExitRoot: gerOf(idx), L1InfoTreeIndex: idx}}}
		} else {
			b.Events = []any{&lastgersync.Event{GEREvent: &lastgersync.GEREvent{BlockNum: num, GlobalExitRoot: gerOf(idx), L1InfoTreeIndex: idx}}}
		}
	default:
		p := present[r.Intn(len(present))]
		b.Events = []any{&lastgersync.Event{GEREvent: &lastgersync.GEREvent{BlockNum: num, GlobalExitRoot: p.GER, IsRemove: true}}}
	}
	return b
}

func (s *GERStore) CheckRef(m *GERModel) error {
	lp, err := s.F.GetLastProcessedBlock(bg)
	if err != nil {
		return err
	}
	if lp != m.LastBlock() {
		return fmt.Errorf("last processed block %d, reference %d", lp, m.LastBlock())
	}
	present := m.Present()
	for x := uint32(0); x <= m.MaxIndex()+2; x++ {
		var want *GERRow
		for i := range present {
			if present[i].Index >= x && (want == nil || present[i].Index < want.Index) {
				want = &present[i]
			}
		}
		got, err := s.F.GetFirstGERAfterL1InfoTreeIndex(bg, x)
		if want == nil {
			if err == nil {
				return fmt.Errorf("GetFirstGERAfterL1InfoTreeIndex(%d) returns %s (index %d) but no injected, not removed GER with index >= %d exists on the canonical chain", x, got.GlobalExitRoot.Hex(), got.L1InfoTreeIndex, x)
			}
			continue
		}
		if err != nil {
			return fmt.Errorf("GetFirstGERAfterL1InfoTreeIndex(%d): %v, but GER %s (index %d, block %d) is injected and not removed", x, err, want.GER.Hex(), want.Index, want.Block)
		}
		if got.L1InfoTreeIndex != want.Index || got.GlobalExitRoot != want.GER {
			return fmt.Errorf("GetFirstGERAfterL1InfoTreeIndex(%d) = (%s,%d), reference (%s,%d)", x, got.GlobalExitRoot.Hex(), got.L1InfoTreeIndex, want.GER.Hex(), want.Index)
		}
	}
	return nil
}

// ---------------------------------------------------------------- helpers

var errNotSupported = errors.New("not supported")

func removeDBFiles(path string) {
	for _, suf := range []string{"", "-wal", "-shm", "-journal"} {
		os.Remove(path + suf)
	}
}

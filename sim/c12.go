package sim

// C12: the bridge API's claim flow yields proofs the bridge contract would accept.
//
// Engine: four real stores (L1 bridge, L1 info tree, L2 bridge, injected GERs) behind the
// REAL bridge service (gin routes and handlers, reached through ServeHTTP without a
// listener). A seeded script mines joint L1/L2 histories (deposits on both networks,
// info-tree updates at arbitrary points and several per block, verify-batches of our and
// of other rollups, GER injections), lets the four syncers fall behind one another
// (independent `sync` ops), restarts them, reorgs either chain, injects storage faults
// into ingestion and into the API's own reads, and yields to another syncer between two
// statements of one API request. Every HTTP answer is judged against naive keccak
// reference trees that share no code with /repo.

import (
	"encoding/json"
	"fmt"
	"math/big"
	"net/http"
	"net/http/httptest"
	"os"
	"path/filepath"
	"sort"
	"time"

	"github.com/agglayer/aggkit/bridgeservice"
	bstypes "github.com/agglayer/aggkit/bridgeservice/types"
	"github.com/agglayer/aggkit/bridgesync"
	"github.com/agglayer/aggkit/l1infotreesync"
	"github.com/agglayer/aggkit/lastgersync"
	"github.com/agglayer/aggkit/log"
	"github.com/ethereum/go-ethereum/common"
)

type c12Dep struct {
	refDeposit
	Block uint64
}

type c12Info struct {
	Block, Pos         uint64
	Index              uint32
	MER, RER, GER, LER common.Hash
	NMain, NL2         int // deposits of L1 / of our rollup covered by this leaf's exit roots
	Parent             common.Hash
	Ts                 uint64
}

type c12VB struct {
	Block    uint64
	Rollup   uint32
	ExitRoot common.Hash
	C2       int // for our rollup: L2 deposits covered
	// Orphan: no L1 info update followed this verification (event streams the rollup manager of today does not emit;
	// the rollup exit root it produced is in no leaf unless a later verification repeats it)
	Orphan bool
}

type c12Inj struct {
	Block uint64
	Index uint32
}

const (
	c12L1B = iota
	c12L1I
	c12L2B
	c12GER
)

var c12StoreNames = []string{"l1bridge", "l1info", "l2bridge", "l2ger"}

type c12World struct {
	dir   string
	rec   *Recorder
	cfg   map[string]int64
	netID uint32

	stores [4]Store
	chain  [4][]MBlock // canonical blocks per store (0,1 share L1 numbering; 2,3 share L2 numbering)
	done   [4]int      // canonical blocks processed by each store

	depL1, depL2 []c12Dep
	mTree, lTree RefAppend
	infos        []c12Info
	vbs          []c12VB
	inj          []c12Inj
	gers         map[common.Hash]bool
	// reverify: a verification of our rollup that an L1 reorg dropped (deposit count it covered); the next L1 block
	// includes it again (the L2 chain has not changed), possibly behind other updates
	reverify int

	h http.Handler
}

func C12Config(prop string, r *Rand, tier string) map[string]int64 {
	c := map[string]int64{}
	c["net"] = int64(1 + r.Intn(3))
	if r.Bool(10) {
		c["net"] = int64(4 + r.Intn(40))
	}
	c["max_events"] = int64(r.Range(2, 6))
	c["max_gap"] = int64(r.Intn(3))
	c["ops"] = int64(r.Range(14, 60))
	if tier == "thorough" {
		c["ops"] = int64(r.Range(20, 140))
	}
	c["w_l1"], c["w_l2"], c["w_sync"] = int64(r.Range(15, 30)), int64(r.Range(10, 25)), int64(r.Range(20, 40))
	c["w_query"], c["w_flow"], c["w_sweep"] = int64(r.Range(5, 20)), int64(r.Range(5, 20)), 2
	c["w_restart"] = int64(r.Range(0, 6))
	c["w_reorg"] = int64(r.Range(0, 10))
	c["w_fsync"] = int64(r.Range(0, 10))
	c["w_qfault"] = int64(r.Range(0, 8))
	c["w_iq"] = int64(r.Range(0, 10))
	// some runs keep the syncers in lock-step (every mined block is processed at once)
	c["lockstep"] = 0
	if r.Bool(20) {
		c["lockstep"] = 1
	}
	// histories whose first info leaves predate the first L1 deposit (mainnet exit root 0)
	c["early_info"] = int64(r.Intn(2))
	if r.Bool(15) {
		// separate fault-free batch
		c["w_fsync"], c["w_qfault"] = 0, 0
	}
	// verifications that no L1 info update follows (drawn last: other knobs keep their values): the rollup exit root
	// they produce reaches no leaf, so the index lookup has nothing to name for the bridges only they cover
	c["orphan_vb"] = 0
	if r.Bool(30) {
		c["orphan_vb"] = 1
	}
	return c
}

func newC12World(dir string, cfg map[string]int64, rec *Recorder) (*c12World, error) {
	w := &c12World{dir: dir, rec: rec, cfg: cfg, netID: uint32(cfg["net"]), gers: map[common.Hash]bool{}}
	w.stores[c12L1B] = NewBridgeStore(filepath.Join(dir, "l1bridge.sqlite"))
	w.stores[c12L1I] = NewL1Store(filepath.Join(dir, "l1info.sqlite"))
	w.stores[c12L2B] = NewBridgeStore(filepath.Join(dir, "l2bridge.sqlite"))
	w.stores[c12GER] = NewGERStore(filepath.Join(dir, "l2ger.sqlite"))
	for _, s := range w.stores {
		if err := s.Open(); err != nil {
			return nil, err
		}
	}
	w.buildService()
	return w, nil
}

func (w *c12World) close() {
	for _, s := range w.stores {
		s.Close()
	}
}

func (w *c12World) buildService() {
	l1b := w.stores[c12L1B].(*BridgeStore).P.FacadeWithDetector(0, stubDetector{})
	l2b := w.stores[c12L2B].(*BridgeStore).P.FacadeWithDetector(w.netID, stubDetector{})
	svc := bridgeservice.New(&bridgeservice.Config{Logger: log.WithFields("module", "c12"), Address: "sim", ReadTimeout: time.Minute, WriteTimeout: time.Minute, NetworkID: w.netID},
		w.stores[c12L1I].(*L1Store).F, w.stores[c12GER].(*GERStore).F, l1b, l2b)
	w.h = svc.VerifHandler()
}

// ---------------------------------------------------------------- reference

func (w *c12World) lastNum(chain int) uint64 {
	c := w.chain[chain]
	if len(c) == 0 {
		return 0
	}
	return c[len(c)-1].Num
}

// processedNum: number of the last canonical block store i has processed (0 = none).
func (w *c12World) processedNum(i int) uint64 {
	if w.done[i] == 0 {
		return 0
	}
	return w.chain[i][w.done[i]-1].Num
}

func (w *c12World) knownL1Deps() int {
	n, lim := 0, w.processedNum(c12L1B)
	for _, d := range w.depL1 {
		if d.Block <= lim {
			n++
		}
	}
	return n
}
func (w *c12World) knownL2Deps() int {
	n, lim := 0, w.processedNum(c12L2B)
	for _, d := range w.depL2 {
		if d.Block <= lim {
			n++
		}
	}
	return n
}
func (w *c12World) knownInfos() int {
	n, lim := 0, w.processedNum(c12L1I)
	for _, d := range w.infos {
		if d.Block <= lim {
			n++
		}
	}
	return n
}
func (w *c12World) knownVBs() []c12VB {
	var out []c12VB
	lim := w.processedNum(c12L1I)
	for _, v := range w.vbs {
		if v.Block <= lim {
			out = append(out, v)
		}
	}
	return out
}
func (w *c12World) knownInj() []uint32 {
	var out []uint32
	lim := w.processedNum(c12GER)
	for _, v := range w.inj {
		if v.Block <= lim {
			out = append(out, v.Index)
		}
	}
	sort.Slice(out, func(i, j int) bool { return out[i] < out[j] })
	return out
}

func rootAt(t *RefAppend, n int) common.Hash {
	if n <= 0 {
		return common.Hash{}
	}
	return t.Roots[n-1]
}

func (w *c12World) rollupTree() *RefSparse {
	t := NewRefSparse()
	for _, v := range w.vbs {
		t.Set(v.Rollup-1, v.ExitRoot)
	}
	return t
}

func (w *c12World) lastC1() int {
	if len(w.infos) == 0 {
		return 0
	}
	return w.infos[len(w.infos)-1].NMain
}
func (w *c12World) lastC2() int {
	c := 0
	for _, v := range w.vbs {
		if v.Rollup == w.netID {
			c = v.C2
		}
	}
	return c
}

// ---------------------------------------------------------------- history generation

func (w *c12World) genBridgeEvent(r *Rand, num, pos uint64, dc uint32, origin uint32) (bridgesync.Event, refDeposit) {
	dest := uint32(0)
	if origin == 0 {
		dest = w.netID
	}
	if r.Bool(15) {
		dest = genNet(r)
	}
	d := refDeposit{LeafType: uint8(r.Intn(2)), OrigNet: genNet(r), OrigAddr: genAddr(r), DestNet: dest, DestAddr: genAddr(r), Amount: genAmount(r), Metadata: genMeta(r)}
	d.Leaf = refBridgeLeaf(d.LeafType, d.OrigNet, d.OrigAddr, d.DestNet, d.DestAddr, d.Amount, d.Metadata)
	ev := bridgesync.Event{Bridge: &bridgesync.Bridge{
		BlockNum: num, BlockPos: pos, FromAddress: genAddr(r), TxHash: genHash(r), Calldata: r.Bytes(r.Intn(20)),
		BlockTimestamp: 1700000000 + num*12, LeafType: d.LeafType, OriginNetwork: d.OrigNet, OriginAddress: d.OrigAddr,
		DestinationNetwork: d.DestNet, DestinationAddress: d.DestAddr, Amount: new(big.Int).Set(d.Amount), Metadata: append([]byte(nil), d.Metadata...),
		DepositCount: dc, IsNativeToken: r.Bool(50)}}
	return ev, d
}

// mineL1 appends one L1 block (bridge part and info part share number and hash).
func (w *c12World) mineL1(seed uint64, gap int) {
	r := NewRand(seed)
	num := w.lastNum(c12L1B) + 1 + uint64(gap)
	hash := blockHash(num, seed)
	parent := blockHash(num-1, seed^0x55)
	ts := 1700000000 + num*12
	bb := MBlock{Num: num, Hash: hash}
	ib := MBlock{Num: num, Hash: hash}
	n := 0
	switch r.Intn(10) {
	case 0:
	case 1, 2, 3:
		n = 1
	default:
		n = r.Range(2, max(2, int(w.cfg["max_events"])))
	}
	pos := uint64(0)
	rollup := w.rollupTree()
	addInfo := func(c1 int) {
		mer := rootAt(&w.mTree, c1)
		rer := common.Hash{}
		if len(rollup.Leaves) > 0 {
			rer = rollup.Root()
		}
		ger := keccak2(mer, rer)
		if w.gers[ger] {
			return // the contract only adds a leaf for a new global exit root
		}
		w.gers[ger] = true
		in := c12Info{Block: num, Pos: pos, Index: uint32(len(w.infos)), MER: mer, RER: rer, GER: ger, NMain: c1, Parent: parent, Ts: ts}
		if l, ok := rollup.Leaves[w.netID-1]; ok {
			in.LER = l
			in.NL2 = w.lastC2()
		}
		w.infos = append(w.infos, in)
		ib.Events = append(ib.Events, l1infotreesync.Event{UpdateL1InfoTree: &l1infotreesync.UpdateL1InfoTree{
			BlockPosition: pos, MainnetExitRoot: mer, RollupExitRoot: rer, ParentHash: parent, Timestamp: ts}})
		pos++
	}
	again := 0
	if w.reverify > 0 {
		// first something else (a deposit and, mostly, the bridge's push of its new exit root), then the verification
		// that the reorg dropped
		n, again = max(n, 3), 3
	}
	for i := 0; i < n; i++ {
		k := r.Intn(100)
		if len(w.depL1) == 0 && w.cfg["early_info"] == 0 && k >= 45 {
			k = 0 // no info leaf before the first L1 deposit in this run
		}
		forcedC2 := -1
		if again > 0 {
			switch again {
			case 3:
				k = 0
			case 2:
				k = 50
				if r.Bool(25) {
					k = 0
				}
			case 1:
				k = 80
				if w.reverify >= w.lastC2() && w.reverify <= len(w.depL2) {
					forcedC2 = w.reverify
				}
				w.reverify = 0
				w.rec.Stats.Inc("verifications_included_again_after_an_l1_reorg")
			}
			again--
		}
		switch {
		case k < 45: // L1 deposit
			ev, d := w.genBridgeEvent(r, num, pos, uint32(len(w.depL1)), 0)
			pos++
			bb.Events = append(bb.Events, ev)
			w.depL1 = append(w.depL1, c12Dep{d, num})
			w.mTree.Append(d.Leaf)
		case k < 72: // the bridge pushes its exit root to the GER contract (possibly an older one first)
			lo := w.lastC1()
			c1 := len(w.depL1)
			if r.Bool(25) {
				c1 = r.Range(lo, len(w.depL1))
			}
			addInfo(c1)
		case k < 90: // verify batches of our rollup
			lo := w.lastC2()
			c2 := len(w.depL2)
			if r.Bool(40) {
				c2 = r.Range(lo, len(w.depL2))
			}
			if forcedC2 >= 0 {
				c2 = forcedC2
			}
			er := rootAt(&w.lTree, c2)
			nb, sr, ag := r.U64()%100000, genHash(r), genAddr(r)
			ib.Events = append(ib.Events, l1infotreesync.Event{VerifyBatches: &l1infotreesync.VerifyBatches{
				BlockPosition: pos, RollupID: w.netID, NumBatch: nb, StateRoot: sr, ExitRoot: er, Aggregator: ag}})
			pos++
			if cur, ok := rollup.Leaves[w.netID-1]; er != (common.Hash{}) && (!ok || cur != er) {
				rollup.Set(w.netID-1, er)
				orphan := w.cfg["orphan_vb"] == 1 && forcedC2 < 0 && r.Bool(30)
				w.vbs = append(w.vbs, c12VB{Block: num, Rollup: w.netID, ExitRoot: er, C2: c2, Orphan: orphan})
				if orphan {
					w.rec.Stats.Inc("verifications_of_our_rollup_without_an_l1_info_update")
				} else {
					addInfo(w.lastC1())
				}
			}
		default: // verify batches of another rollup
			rid := uint32(1 + r.Intn(5))
			if rid == w.netID {
				rid = w.netID + 1
			}
			er := genHash(r)
			ib.Events = append(ib.Events, l1infotreesync.Event{VerifyBatches: &l1infotreesync.VerifyBatches{
				BlockPosition: pos, RollupID: rid, NumBatch: r.U64() % 100000, StateRoot: genHash(r), ExitRoot: er, Aggregator: genAddr(r)}})
			pos++
			rollup.Set(rid-1, er)
			w.vbs = append(w.vbs, c12VB{Block: num, Rollup: rid, ExitRoot: er})
			if w.cfg["orphan_vb"] == 1 && r.Bool(20) {
				w.rec.Stats.Inc("verifications_of_other_rollups_without_an_l1_info_update")
			} else {
				addInfo(w.lastC1())
			}
		}
	}
	w.chain[c12L1B] = append(w.chain[c12L1B], bb)
	w.chain[c12L1I] = append(w.chain[c12L1I], ib)
	w.rec.Stats.Inc("l1_blocks")
	w.rec.Stats.Add("events", int64(len(bb.Events)+len(ib.Events)))
	infosInBlock := 0
	for _, in := range w.infos {
		if in.Block == num {
			infosInBlock++
		}
	}
	if infosInBlock > 1 {
		w.rec.Stats.Inc("blocks_with_several_info_updates")
	}
}

func (w *c12World) mineL2(seed uint64, gap int) {
	r := NewRand(seed)
	num := w.lastNum(c12L2B) + 1 + uint64(gap)
	hash := blockHash(num, seed)
	bb := MBlock{Num: num, Hash: hash}
	gb := MBlock{Num: num, Hash: hash}
	n := 0
	switch r.Intn(10) {
	case 0:
	case 1, 2, 3, 4:
		n = 1
	default:
		n = r.Range(2, max(2, int(w.cfg["max_events"])))
	}
	injected := map[uint32]bool{}
	for _, x := range w.inj {
		injected[x.Index] = true
	}
	pos := uint64(0)
	for i := 0; i < n; i++ {
		if r.Bool(60) || len(w.infos) == 0 {
			ev, d := w.genBridgeEvent(r, num, pos, uint32(len(w.depL2)), w.netID)
			pos++
			bb.Events = append(bb.Events, ev)
			w.depL2 = append(w.depL2, c12Dep{d, num})
			w.lTree.Append(d.Leaf)
			continue
		}
		// inject an L1 info leaf that is not injected yet (mostly the newest); the injected-GER
		// store keeps one entry per block
		if len(gb.Events) > 0 {
			continue
		}
		var cand []uint32
		for j := range w.infos {
			if !injected[uint32(j)] {
				cand = append(cand, uint32(j))
			}
		}
		if len(cand) == 0 {
			continue
		}
		j := cand[len(cand)-1]
		if r.Bool(35) {
			j = cand[r.Intn(len(cand))]
		}
		injected[j] = true
		w.inj = append(w.inj, c12Inj{Block: num, Index: j})
		if r.Bool(50) {
			gb.Events = append(gb.Events, &lastgersync.Event{GERInfo: &lastgersync.GlobalExitRootInfo{GlobalExitRoot: w.infos[j].GER, L1InfoTreeIndex: j}})
		} else {
			gb.Events = append(gb.Events, &lastgersync.Event{GEREvent: &lastgersync.GEREvent{BlockNum: num, GlobalExitRoot: w.infos[j].GER, L1InfoTreeIndex: j}})
		}
	}
	w.chain[c12L2B] = append(w.chain[c12L2B], bb)
	w.chain[c12GER] = append(w.chain[c12GER], gb)
	w.rec.Stats.Inc("l2_blocks")
	w.rec.Stats.Add("events", int64(len(bb.Events)+len(gb.Events)))
}

// rewind drops the last `depth` canonical blocks of a chain (0 = L1, 1 = L2) from the reference.
func (w *c12World) rewindRef(chainID int, first uint64) {
	if chainID == 0 {
		n := len(w.depL1)
		for n > 0 && w.depL1[n-1].Block >= first {
			n--
		}
		w.depL1 = w.depL1[:n]
		w.mTree.Truncate(n)
		k := len(w.infos)
		for k > 0 && w.infos[k-1].Block >= first {
			delete(w.gers, w.infos[k-1].GER)
			k--
		}
		w.infos = w.infos[:k]
		v := len(w.vbs)
		for v > 0 && w.vbs[v-1].Block >= first {
			v--
		}
		w.vbs = w.vbs[:v]
		return
	}
	n := len(w.depL2)
	for n > 0 && w.depL2[n-1].Block >= first {
		n--
	}
	w.depL2 = w.depL2[:n]
	w.lTree.Truncate(n)
	k := len(w.inj)
	for k > 0 && w.inj[k-1].Block >= first {
		k--
	}
	w.inj = w.inj[:k]
}

// ---------------------------------------------------------------- HTTP

func (w *c12World) get(path string) (int, []byte) {
	req := httptest.NewRequest(http.MethodGet, bridgeservice.BridgeV1Prefix+path, nil)
	rr := httptest.NewRecorder()
	w.h.ServeHTTP(rr, req)
	w.rec.Stats.Inc("http_requests")
	return rr.Code, rr.Body.Bytes()
}

func proofOf(p bstypes.Proof) (out [32]common.Hash) {
	for i := range p {
		out[i] = common.HexToHash(string(p[i]))
	}
	return out
}

type c12Judge struct {
	w    *c12World
	viol *Violation
	// relaxed: a fault or a scheduling point was injected into this request: it may fail, it may not lie
	relaxed bool
}

func (j *c12Judge) fail(oracle, sig, format string, a ...any) {
	if j.viol == nil {
		j.viol = &Violation{Oracle: oracle, Sig: "c12/" + sig, Detail: fmt.Sprintf(format, a...)}
	}
}

func (j *c12Judge) checkLeaf(ctx string, got *bstypes.L1InfoTreeLeafResponse, want uint32, exact bool) *c12Info {
	w := j.w
	idx := got.L1InfoTreeIndex
	if exact && idx != want {
		j.fail("info-leaf", "leaf-index", "%s: asked for L1 info leaf %d, the answer carries leaf %d", ctx, want, idx)
		return nil
	}
	// under a scheduling point the info store may have moved forward during the request
	if int(idx) >= len(w.infos) || (!j.relaxed && int(idx) >= w.knownInfos()) {
		j.fail("info-leaf", "unknown-leaf", "%s: the answer carries L1 info leaf %d, the info store has processed %d leaves (canonical chain has %d)", ctx, idx, w.knownInfos(), len(w.infos))
		return nil
	}
	ref := &w.infos[idx]
	if common.HexToHash(string(got.MainnetExitRoot)) != ref.MER || common.HexToHash(string(got.RollupExitRoot)) != ref.RER ||
		common.HexToHash(string(got.GlobalExitRoot)) != ref.GER || got.BlockNumber != ref.Block {
		j.fail("info-leaf", "leaf-content", "%s: L1 info leaf %d is reported with exit roots (%s,%s) in block %d; the chain has (%s,%s) in block %d", ctx, idx,
			string(got.MainnetExitRoot)[:12], string(got.RollupExitRoot)[:12], got.BlockNumber, ref.MER.Hex()[:12], ref.RER.Hex()[:12], ref.Block)
		return nil
	}
	if common.HexToHash(string(got.GlobalExitRoot)) != keccak2(ref.MER, ref.RER) {
		j.fail("info-leaf", "ger", "%s: global exit root is not the hash of the two exit roots", ctx)
		return nil
	}
	return ref
}

// claimProof issues and judges GET /claim-proof.
func (j *c12Judge) claimProof(net uint32, i uint32, d uint32) (ok bool) {
	w := j.w
	mainnet := net == 0
	// what the node had recorded when the request started
	deps, known := w.depL2, w.knownL2Deps()
	if mainnet {
		deps, known = w.depL1, w.knownL1Deps()
	}
	code, body := w.get(fmt.Sprintf("/claim-proof?network_id=%d&leaf_index=%d&deposit_count=%d", net, i, d))
	ctx := fmt.Sprintf("claim-proof(network %d, leaf %d, deposit %d)", net, i, d)
	if code != http.StatusOK {
		w.rec.Stats.Inc("claim_proof_refused")
		if j.relaxed {
			return false
		}
		if int(i) < w.knownInfos() {
			in := w.infos[i]
			cover := in.NL2
			if mainnet {
				cover = in.NMain
			}
			if int(d) < cover && known >= cover {
				j.fail("claim-proof", "claim-proof-refused", "%s answers %d %s although L1 info leaf %d covers the bridge (its exit root holds %d deposits) and the bridge syncer has processed %d deposits", ctx, code, trunc(string(body), 160), i, cover, known)
			}
		}
		return false
	}
	var cp bstypes.ClaimProof
	if err := json.Unmarshal(body, &cp); err != nil {
		j.fail("claim-proof", "bad-json", "%s: %v", ctx, err)
		return false
	}
	in := j.checkLeaf(ctx, &cp.L1InfoTreeLeaf, i, true)
	if in == nil {
		return false
	}
	cover := in.NL2
	if mainnet {
		cover = in.NMain
	}
	// the property speaks about bridges the node has recorded and leaves that cover them
	if int(d) >= known || int(d) >= len(deps) {
		w.rec.Stats.Inc("proof_returned_for_bridge_not_recorded")
		return false
	}
	if int(d) >= cover {
		w.rec.Stats.Inc("proof_returned_for_leaf_not_covering")
		return false
	}
	leaf := deps[d].Leaf
	pl, pr := proofOf(cp.ProofLocalExitRoot), proofOf(cp.ProofRollupExitRoot)
	lag := ""
	if known < cover {
		lag = fmt.Sprintf("; the bridge syncer has processed %d deposits so far", known)
		w.rec.Stats.Inc("proofs_judged_while_bridge_syncer_lags")
	}
	if mainnet {
		if got := RefVerify(leaf, pl, d); got != in.MER {
			j.fail("claim-proof", "mainnet-proof", "%s: the bridge leaf with the returned proof hashes to %s, not to the mainnet exit root %s of L1 info leaf %d (that root holds %d deposits%s)", ctx, got.Hex()[:12], in.MER.Hex()[:12], i, in.NMain, lag)
			return false
		}
	} else {
		ler := RefVerify(leaf, pl, d)
		if got := RefVerify(ler, pr, net-1); got != in.RER {
			what := "the local exit root does not hash with the rollup proof to the rollup exit root"
			if ler != in.LER {
				what = "the bridge leaf with the local proof does not hash to the rollup's local exit root in that leaf"
			}
			j.fail("claim-proof", "rollup-proof", "%s: %s (L1 info leaf %d, rollup exit root %s, that leaf's local exit root holds %d deposits%s)", ctx, what, i, in.RER.Hex()[:12], in.NL2, lag)
			return false
		}
	}
	w.rec.Stats.Inc("claim_proofs_verified")
	return true
}

func trunc(s string, n int) string {
	if len(s) > n {
		return s[:n]
	}
	return s
}

// indexLookup issues and judges GET /l1-info-tree-index; returns the index when the answer is 200.
func (j *c12Judge) indexLookup(net uint32, d uint32) (uint32, bool) {
	w := j.w
	code, body := w.get(fmt.Sprintf("/l1-info-tree-index?network_id=%d&deposit_count=%d", net, d))
	ctx := fmt.Sprintf("l1-info-tree-index(network %d, deposit %d)", net, d)
	mainnet := net == 0
	cover := func(in c12Info) int {
		if mainnet {
			return in.NMain
		}
		return in.NL2
	}
	if code != http.StatusOK {
		w.rec.Stats.Inc("index_lookup_refused")
		if j.relaxed {
			return 0, false
		}
		// Is there an excuse? No covering leaf known, or some root the search may touch is unknown to the bridge syncer.
		ki := w.knownInfos()
		if ki == 0 || int(d) >= cover(w.infos[ki-1]) {
			w.rec.Stats.Inc("index_lookup_refused_no_cover")
			return 0, false
		}
		excuse := false
		if mainnet {
			kd := w.knownL1Deps()
			lag := false
			for _, in := range w.infos[:ki] {
				if in.NMain == 0 || in.NMain > kd {
					excuse = true
				}
				if in.NMain > kd {
					lag = true
				}
			}
			if excuse && !lag {
				// observation (DESIGN 14): a leaf older than the first L1 deposit carries mainnet exit root 0x0,
				// which no bridge syncer ever stores; the binary search gives up when it meets it
				w.rec.Stats.Inc("index_lookup_refused_only_because_of_a_leaf_older_than_the_first_deposit")
			}
		} else {
			kd := w.knownL2Deps()
			for _, v := range w.knownVBs() {
				if v.Rollup == w.netID && v.C2 > kd {
					excuse = true
				}
				if v.Rollup == w.netID && v.Orphan && int(d) < v.C2 {
					// the rollup exit root of a verification that covers the bridge is in no leaf: the lookup, which
					// goes through the first covering verification's root, may have nothing to name
					excuse = true
					w.rec.Stats.Inc("index_lookup_refused_root_of_the_verification_in_no_leaf")
				}
			}
		}
		if excuse {
			w.rec.Stats.Inc("index_lookup_refused_root_unknown_to_bridge_syncer")
			return 0, false
		}
		j.fail("index-lookup", "index-refused", "%s answers %d %s although L1 info leaf %d covers the bridge and every exit root in the info tree is known to the bridge syncer", ctx, code, trunc(string(body), 160), ki-1)
		return 0, false
	}
	var idx uint32
	if err := json.Unmarshal(body, &idx); err != nil {
		j.fail("index-lookup", "bad-json", "%s: %v (%s)", ctx, err, trunc(string(body), 80))
		return 0, false
	}
	lim := w.knownInfos()
	if j.relaxed {
		lim = len(w.infos)
	}
	if int(idx) >= lim {
		j.fail("index-lookup", "index-unknown", "%s names L1 info leaf %d; the info store has processed %d leaves", ctx, idx, lim)
		return 0, false
	}
	if int(d) >= cover(w.infos[idx]) {
		j.fail("index-lookup", "index-not-covering", "%s names L1 info leaf %d, whose exit root holds only %d deposits of that network: it does not cover deposit %d", ctx, idx, cover(w.infos[idx]), d)
		return 0, false
	}
	w.rec.Stats.Inc("index_lookups_covering")
	// not part of the property, only measured: is it the first covering leaf?
	first := idx
	for k := 0; k < int(idx); k++ {
		if int(d) < cover(w.infos[k]) {
			first = uint32(k)
			break
		}
	}
	if first != idx {
		w.rec.Stats.Inc("index_lookup_not_first_covering")
	}
	return idx, true
}

// injectedLeaf issues and judges GET /injected-l1-info-leaf.
func (j *c12Judge) injectedLeaf(net uint32, i uint32) (uint32, bool) {
	w := j.w
	code, body := w.get(fmt.Sprintf("/injected-l1-info-leaf?network_id=%d&leaf_index=%d", net, i))
	ctx := fmt.Sprintf("injected-l1-info-leaf(network %d, leaf %d)", net, i)
	inj := w.knownInj()
	if code != http.StatusOK {
		w.rec.Stats.Inc("injected_leaf_refused")
		if j.relaxed {
			return 0, false
		}
		if net == 0 {
			if int(i) < w.knownInfos() {
				j.fail("injected-leaf", "leaf-refused", "%s answers %d %s although the info store has processed %d leaves", ctx, code, trunc(string(body), 160), w.knownInfos())
			}
			return 0, false
		}
		for _, x := range inj {
			if x >= i {
				if int(x) < w.knownInfos() {
					j.fail("injected-leaf", "leaf-refused", "%s answers %d %s although leaf %d is injected on the rollup and known to the info store", ctx, code, trunc(string(body), 160), x)
				}
				break
			}
		}
		return 0, false
	}
	var lr bstypes.L1InfoTreeLeafResponse
	if err := json.Unmarshal(body, &lr); err != nil {
		j.fail("injected-leaf", "bad-json", "%s: %v", ctx, err)
		return 0, false
	}
	if j.checkLeaf(ctx, &lr, i, net == 0) == nil {
		return 0, false
	}
	if net != 0 {
		if lr.L1InfoTreeIndex < i {
			j.fail("injected-leaf", "leaf-before-asked", "%s answers with leaf %d, older than the asked index", ctx, lr.L1InfoTreeIndex)
			return 0, false
		}
		found := false
		all := inj
		if j.relaxed {
			all = nil
			for _, x := range w.inj {
				all = append(all, x.Index)
			}
		}
		for _, x := range all {
			if x == lr.L1InfoTreeIndex {
				found = true
			}
		}
		if !found {
			j.fail("injected-leaf", "leaf-not-injected", "%s answers with leaf %d, which is not injected on the rollup (injected: %v)", ctx, lr.L1InfoTreeIndex, inj)
			return 0, false
		}
	}
	w.rec.Stats.Inc("injected_leaves_ok")
	return lr.L1InfoTreeIndex, true
}

// flow runs the three-step claim flow for deposit d of network `origin`.
func (j *c12Judge) flow(origin uint32, d uint32) {
	dest := uint32(0)
	if origin == 0 {
		dest = j.w.netID
	}
	idx, ok := j.indexLookup(origin, d)
	if !ok || j.viol != nil {
		return
	}
	leaf, ok := j.injectedLeaf(dest, idx)
	if !ok || j.viol != nil {
		return
	}
	if j.claimProof(origin, leaf, d) {
		j.w.rec.Stats.Inc("claim_flows_completed")
	}
}

// sweep judges every (network, deposit, leaf) triple, or a seeded sample of them when there are many.
func (j *c12Judge) sweep(seed uint64, budget int) {
	w := j.w
	r := NewRand(seed)
	for _, net := range []uint32{0, w.netID} {
		nd := len(w.depL1)
		if net != 0 {
			nd = len(w.depL2)
		}
		ni := len(w.infos)
		total := (nd + 1) * (ni + 1)
		for d := 0; d <= nd; d++ {
			if j.viol != nil {
				return
			}
			if total <= budget || r.Intn(total) < budget {
				j.indexLookup(net, uint32(d))
			}
			for i := 0; i <= ni; i++ {
				if j.viol != nil {
					return
				}
				if total <= budget || r.Intn(total) < budget {
					j.claimProof(net, uint32(i), uint32(d))
				}
			}
		}
		for i := 0; i <= ni && j.viol == nil; i++ {
			j.injectedLeaf(net, uint32(i))
		}
	}
	w.rec.Stats.Inc("sweeps")
}

// ---------------------------------------------------------------- run

func (w *c12World) syncOne(i int) error {
	if w.done[i] >= len(w.chain[i]) {
		return nil
	}
	if err := w.stores[i].ProcessBlock(w.chain[i][w.done[i]]); err != nil {
		return err
	}
	w.done[i]++
	return nil
}

func (w *c12World) stateDigest() string {
	return fmt.Sprintf("d%v|c%d,%d|dep%d,%d|i%d|v%d|j%d", w.done, len(w.chain[0]), len(w.chain[2]), len(w.depL1), len(w.depL2), len(w.infos), len(w.vbs), len(w.inj))
}

func RunC12(prop string, tr *Trace, sc *Script, rec *Recorder, scratch string) (viol *Violation) {
	InstallSQLiteHooks()
	quietLogs()
	cfg := tr.Cfg
	dir := filepath.Join(scratch, fmt.Sprintf("run-%d-%d", tr.Seed, tr.Run))
	os.RemoveAll(dir)
	if err := os.MkdirAll(dir, 0o755); err != nil {
		return &Violation{Oracle: "harness", Detail: err.Error()}
	}
	defer os.RemoveAll(dir)
	w, err := newC12World(dir, cfg, rec)
	if err != nil {
		return &Violation{Oracle: "harness", Detail: "open: " + err.Error()}
	}
	defer w.close()
	defer DisarmAllFaults()

	fail := func(oracle, sig, format string, a ...any) *Violation {
		return &Violation{Oracle: oracle, Sig: "c12/" + sig, Detail: fmt.Sprintf(format, a...)}
	}
	pickQuery := func(r *Rand) []int64 {
		net := int64(0)
		if r.Bool(50) {
			net = 1
		}
		nd := len(w.depL1)
		if net == 1 {
			nd = len(w.depL2)
		}
		return []int64{int64(r.Intn(3)), net, int64(r.Intn(nd + 2)), int64(r.Intn(len(w.infos) + 2))}
	}
	// answers given just before a reorg are asked for again a few operations after it (whatever the node remembers
	// from before the reorg must not leak into them)
	afterReorg := 0
	gen := func(r *Rand) (Op, bool) {
		if afterReorg > 0 {
			afterReorg--
			if afterReorg == 0 {
				return Op{K: "sweep", A: []int64{int64(r.U64() >> 1)}}, true
			}
			if afterReorg%2 == 1 {
				// bring the stores forward so that the sweep sees the new fork
				return Op{K: "sync", A: []int64{int64(r.Intn(4)), 100}}, true
			}
		}
		weights := []int{int(cfg["w_l1"]), int(cfg["w_l2"]), int(cfg["w_sync"]), int(cfg["w_query"]), int(cfg["w_flow"]), int(cfg["w_sweep"]),
			int(cfg["w_restart"]), int(cfg["w_reorg"]), int(cfg["w_fsync"]), int(cfg["w_qfault"]), int(cfg["w_iq"])}
		if cfg["lockstep"] == 1 {
			weights[2], weights[8], weights[10] = 0, 0, 0
		}
		switch r.Pick(weights) {
		case 0:
			return Op{K: "l1blk", A: []int64{int64(r.U64() >> 1), int64(r.Intn(int(cfg["max_gap"]) + 1))}}, true
		case 1:
			return Op{K: "l2blk", A: []int64{int64(r.U64() >> 1), int64(r.Intn(int(cfg["max_gap"]) + 1))}}, true
		case 2:
			n := int64(1 + r.Intn(3))
			if r.Bool(30) {
				n = 100
			}
			return Op{K: "sync", A: []int64{int64(r.Intn(4)), n}}, true
		case 3:
			return Op{K: "query", A: pickQuery(r)}, true
		case 4:
			q := pickQuery(r)
			return Op{K: "flow", A: []int64{q[1], q[2]}}, true
		case 5:
			return Op{K: "sweep", A: []int64{int64(r.U64() >> 1)}}, true
		case 6:
			return Op{K: "restart", A: []int64{int64(r.Intn(4))}}, true
		case 7:
			pre := int64(0)
			if r.Bool(50) {
				pre = 1
				afterReorg = 2 * r.Range(2, 5)
			}
			return Op{K: "reorg", A: []int64{int64(r.Intn(2)), int64(1 + r.Intn(3)), pre, int64(r.U64() >> 1)}}, true
		case 8:
			return Op{K: "fsync", A: []int64{int64(r.Intn(4)), int64(r.Intn(4)), int64(1 + r.Intn(60))}}, true
		case 9, 10:
			// the fault / scheduling point goes into a store the request reads: the info store or the bridge store of its network
			q := pickQuery(r)
			st := int64(c12L1I)
			if r.Bool(50) {
				st = int64(c12L1B)
				if q[1] == 1 {
					st = c12L2B
				}
			}
			if q[0] == 2 && q[1] == 1 && r.Bool(50) {
				st = c12GER
			}
			k := int64(1 + r.Intn(6))
			if r.Bool(30) {
				k = int64(1 + r.Intn(40))
			}
			if weights[9] > 0 && (weights[10] == 0 || r.Bool(50)) {
				return Op{K: "qfault", A: append([]int64{st, k}, q...)}, true
			}
			return Op{K: "iq", A: append([]int64{st, k, int64(r.Intn(4))}, q...)}, true
		}
		return Op{}, false
	}
	netOf := func(a int64) uint32 {
		if a == 0 {
			return 0
		}
		return w.netID
	}
	doQuery := func(j *c12Judge, kind int64, net uint32, d, i uint32) {
		switch kind {
		case 0:
			j.claimProof(net, i, d)
		case 1:
			j.indexLookup(net, d)
		default:
			j.injectedLeaf(net, i)
		}
	}
	syncAll := func() *Violation {
		for i := 0; i < 4; i++ {
			for w.done[i] < len(w.chain[i]) {
				if err := w.syncOne(i); err != nil {
					return fail("process", "process-error", "fault-free ProcessBlock on %s failed: %v", c12StoreNames[i], err)
				}
			}
		}
		return nil
	}

	for {
		op, ok := sc.Next(gen)
		if !ok {
			break
		}
		rec.Event("op %s", op)
		switch op.K {
		case "l1blk":
			w.mineL1(uint64(op.Arg(0)), int(op.Arg(1)))
			rec.Step("L1")
		case "l2blk":
			w.mineL2(uint64(op.Arg(0)), int(op.Arg(1)))
			rec.Step("L2")
		case "sync":
			i := int(op.Arg(0)) % 4
			n := 0
			for k := int64(0); k < op.Arg(1) && w.done[i] < len(w.chain[i]); k++ {
				if err := w.syncOne(i); err != nil {
					return fail("process", "process-error", "fault-free ProcessBlock on %s failed: %v", c12StoreNames[i], err)
				}
				n++
			}
			rec.Step(fmt.Sprintf("S%d.%d", i, n))
			if n > 0 {
				rec.Stats.Inc("syncs")
			}
		case "fsync":
			i := int(op.Arg(0)) % 4
			if w.done[i] >= len(w.chain[i]) {
				continue
			}
			var p *FaultPlan
			what := ""
			switch op.Arg(1) % 4 {
			case 0:
				p, what = &FaultPlan{FailAt: int(op.Arg(2))}, "stmt"
			case 1:
				p, what = &FaultPlan{FailCommit: true}, "commit"
			case 2:
				p, what = &FaultPlan{FailBegin: true}, "begin"
			default:
				p, what = &FaultPlan{DenyAllWrites: true}, "diskfull"
			}
			path := w.stores[i].Path()
			ArmFault(path, p)
			err := w.stores[i].ProcessBlock(w.chain[i][w.done[i]])
			DisarmFault(path)
			fired := p.Fired > 0 || p.CommitFail > 0 || p.BeginFail > 0
			switch {
			case err == nil:
				// the block is in (a fault that fired and was swallowed is C07's business, not judged here)
				w.done[i]++
			case !fired:
				return fail("process", "process-error", "ProcessBlock on %s failed without an injected fault: %v", c12StoreNames[i], err)
			default:
				rec.Stats.Inc("fault_fired_" + what)
				if w.stores[i].IsHalted() {
					// C07 judges this; the API would refuse everything from here on
					return nil
				}
				if err := w.syncOne(i); err != nil {
					return fail("process", "retry-error", "clean retry on %s after %s failed: %v", c12StoreNames[i], what, err)
				}
			}
			rec.Step(fmt.Sprintf("F%d.%s", i, what))
		case "restart":
			i := int(op.Arg(0)) % 4
			w.stores[i].Close()
			if err := w.stores[i].Open(); err != nil {
				return fail("harness", "reopen", "reopen %s: %v", c12StoreNames[i], err)
			}
			w.buildService()
			rec.Step(fmt.Sprintf("R%d", i))
			rec.Stats.Inc("restarts")
		case "reorg":
			ch := int(op.Arg(0)) % 2
			a, b := c12L1B, c12L1I
			if ch == 1 {
				a, b = c12L2B, c12GER
			}
			n := len(w.chain[a])
			depth := int(op.Arg(1))
			if depth > n {
				depth = n
			}
			if ch == 0 && op.Arg(2) == 1 {
				// boundary bias: start the reorg exactly at the block of the newest verification of our rollup
				for v := len(w.vbs) - 1; v >= 0; v-- {
					if w.vbs[v].Rollup != w.netID {
						continue
					}
					for dd := 1; dd <= 6 && dd <= n; dd++ {
						if w.chain[a][n-dd].Num == w.vbs[v].Block {
							depth = dd
						}
					}
					break
				}
			}
			// verified batches are final: an L2 reorg never drops deposits an L1 verification already covers
			for depth > 0 && ch == 1 {
				first := w.chain[a][n-depth].Num
				keep := 0
				for _, d := range w.depL2 {
					if d.Block < first {
						keep++
					}
				}
				if keep >= w.lastC2() {
					break
				}
				depth--
			}
			// likewise an L1 reorg never drops a leaf that is already injected on L2
			for depth > 0 && ch == 0 {
				first := w.chain[a][n-depth].Num
				keep := 0
				for _, in := range w.infos {
					if in.Block < first {
						keep++
					}
				}
				maxInj := -1
				for _, x := range w.inj {
					maxInj = max(maxInj, int(x.Index))
				}
				if keep > maxInj {
					break
				}
				depth--
			}
			if depth == 0 {
				continue
			}
			if op.Arg(2) == 1 {
				// every lookup is answered once right before the reorg
				j := &c12Judge{w: w}
				j.sweep(uint64(op.Arg(3)), 150)
				if j.viol != nil {
					return j.viol
				}
				rec.Stats.Inc("sweeps_right_before_a_reorg")
			}
			first := w.chain[a][n-depth].Num
			for _, i := range []int{a, b} {
				if w.done[i] > n-depth {
					if err := w.stores[i].Reorg(first); err != nil {
						return fail("process", "reorg-error", "Reorg(%d) on %s failed: %v", first, c12StoreNames[i], err)
					}
					w.done[i] = n - depth
					rec.Stats.Inc("store_reorgs")
				}
				w.chain[i] = w.chain[i][:n-depth]
			}
			if ch == 0 {
				for v := len(w.vbs) - 1; v >= 0 && w.vbs[v].Block >= first; v-- {
					if w.vbs[v].Rollup == w.netID && w.vbs[v].C2 > 0 {
						w.reverify = w.vbs[v].C2
						break
					}
				}
			}
			w.rewindRef(ch, first)
			rec.Step(fmt.Sprintf("G%d.%d", ch, depth))
			rec.Stats.Inc("reorgs")
		case "query":
			j := &c12Judge{w: w}
			doQuery(j, op.Arg(0), netOf(op.Arg(1)), uint32(op.Arg(2)), uint32(op.Arg(3)))
			if j.viol != nil {
				return j.viol
			}
			rec.Step("Q")
			rec.Stats.Inc("queries")
		case "flow":
			j := &c12Judge{w: w}
			j.flow(netOf(op.Arg(0)), uint32(op.Arg(1)))
			if j.viol != nil {
				return j.viol
			}
			rec.Step("W")
			rec.Stats.Inc("flows")
		case "sweep":
			j := &c12Judge{w: w}
			j.sweep(uint64(op.Arg(0)), 300)
			if j.viol != nil {
				return j.viol
			}
			rec.Step("X")
		case "qfault": // a read error inside the API's own queries: the request may fail, it may not lie
			i := int(op.Arg(0)) % 4
			p := &FaultPlan{FailAt: int(op.Arg(1)), OneShot: true}
			path := w.stores[i].Path()
			ArmFault(path, p)
			j := &c12Judge{w: w, relaxed: true}
			doQuery(j, op.Arg(2), netOf(op.Arg(3)), uint32(op.Arg(4)), uint32(op.Arg(5)))
			DisarmFault(path)
			if p.Fired > 0 {
				rec.Stats.Inc("fault_fired_api_read")
			}
			if j.viol != nil {
				return j.viol
			}
			rec.Step("QF")
		case "iq": // another syncer moves forward between two statements of one request
			i := int(op.Arg(0)) % 4
			adv := int(op.Arg(2)) % 4
			var yerr error
			p := &FaultPlan{YieldAt: int(op.Arg(1)), Yield: func() {
				for k := 0; k < 3; k++ {
					if e := w.syncOne(adv); e != nil {
						yerr = e
					}
				}
			}}
			path := w.stores[i].Path()
			ArmFault(path, p)
			j := &c12Judge{w: w, relaxed: true}
			doQuery(j, op.Arg(3), netOf(op.Arg(4)), uint32(op.Arg(5)), uint32(op.Arg(6)))
			DisarmFault(path)
			if yerr != nil {
				return fail("process", "process-error", "ProcessBlock on %s (inside a request) failed: %v", c12StoreNames[adv], yerr)
			}
			if p.Yields > 0 {
				rec.Stats.Inc("interleaved_requests")
			}
			if j.viol != nil {
				return j.viol
			}
			rec.Step("IQ")
		default:
			continue
		}
		if cfg["lockstep"] == 1 {
			if v := syncAll(); v != nil {
				return v
			}
		}
		rec.State(w.stateDigest())
	}
	// end of run: everything is processed, every triple is judged
	if v := syncAll(); v != nil {
		return v
	}
	for _, s := range w.stores {
		if s.IsHalted() {
			return nil
		}
	}
	j := &c12Judge{w: w}
	j.sweep(tr.Seed, 400)
	if j.viol != nil {
		return j.viol
	}
	for _, net := range []uint32{0, w.netID} {
		nd := len(w.depL1)
		if net != 0 {
			nd = len(w.depL2)
		}
		for d := 0; d < nd && d < 40; d++ {
			j.flow(net, uint32(d))
			if j.viol != nil {
				return j.viol
			}
		}
	}
	return nil
}

func init() {
	register(&PropSpec{ID: "C12", Engine: "storesim", Config: C12Config, Run: RunC12,
		OpLimit: func(cfg map[string]int64) int { return int(cfg["ops"]) },
		Nontrivial: func(s Stats) bool {
			return s["claim_proofs_verified"] > 0 && s["index_lookups_covering"] > 0
		}})
}

package sim

// fakechain: a tree of blocks with a canonical head and safe / finalized
// pointers, owned by the simulator. Block hash = hash of a real types.Header.

import (
	"math/big"
	"sort"

	"github.com/ethereum/go-ethereum/common"
	"github.com/ethereum/go-ethereum/core/types"
)

// TraceCall is a generated debug_traceTransaction call frame.
type TraceCall struct {
	From  common.Address `json:"from"`
	To    common.Address `json:"to"`
	Err   *string        `json:"error,omitempty"`
	Input []byte         `json:"-"`
	Calls []TraceCall    `json:"calls,omitempty"`
}

type FBlock struct {
	Header *types.Header
	Hash   common.Hash
	Logs   []types.Log
	Traces map[common.Hash]*TraceCall
	// Payload is engine specific (the model events this block stands for).
	Payload any
}

func (b *FBlock) Num() uint64 { return b.Header.Number.Uint64() }

type Chain struct {
	ChainID   uint64
	Canon     []*FBlock // index = block number; Canon[0] is genesis
	Finalized uint64
	Safe      uint64
	// History of (number,hash) pairs that were canonical at some time (for the C06 oracle).
	salt uint64
	// view calls: state of view functions per block is engine specific
	CallFn func(c *Chain, at *FBlock, to common.Address, data []byte) ([]byte, error)
	// prev is the canonical list one chain-op earlier (stale-view RPC fault)
	prev          []*FBlock
	prevFinalized uint64
	prevSafe      uint64
}

func NewChain(chainID uint64, salt uint64) *Chain {
	c := &Chain{ChainID: chainID, salt: salt}
	g := &types.Header{Number: big.NewInt(0), Time: 1700000000, Extra: []byte{byte(salt), byte(salt >> 8)}, Difficulty: big.NewInt(0)}
	c.Canon = []*FBlock{{Header: g, Hash: g.Hash()}}
	return c
}

func (c *Chain) Head() *FBlock { return c.Canon[len(c.Canon)-1] }
func (c *Chain) HeadNum() uint64 { return uint64(len(c.Canon) - 1) }

func (c *Chain) snapshotPrev() {
	c.prev = append([]*FBlock(nil), c.Canon...)
	c.prevFinalized, c.prevSafe = c.Finalized, c.Safe
}

// Mine appends one block on top of the head. fill sets logs/traces/payload
// (log BlockNumber/BlockHash/Index are completed here).
func (c *Chain) Mine(salt uint64, fill func(b *FBlock)) *FBlock {
	p := c.Head()
	n := p.Num() + 1
	h := &types.Header{Number: new(big.Int).SetUint64(n), ParentHash: p.Hash, Time: p.Header.Time + 12,
		Extra: []byte{byte(salt), byte(salt >> 8), byte(salt >> 16), byte(salt >> 24), byte(c.salt)}, Difficulty: big.NewInt(0)}
	b := &FBlock{Header: h, Traces: map[common.Hash]*TraceCall{}}
	b.Hash = h.Hash()
	if fill != nil {
		fill(b)
	}
	for i := range b.Logs {
		b.Logs[i].BlockNumber = n
		b.Logs[i].BlockHash = b.Hash
		b.Logs[i].Index = uint(i)
	}
	c.Canon = append(c.Canon, b)
	return b
}

// Rewind drops canonical blocks above keep (used by Fork); the floor is the caller's business.
func (c *Chain) Rewind(keep uint64) []*FBlock {
	dropped := append([]*FBlock(nil), c.Canon[keep+1:]...)
	c.Canon = c.Canon[:keep+1]
	return dropped
}

func (c *Chain) ByNumber(view []*FBlock, n uint64) *FBlock {
	if n < uint64(len(view)) {
		return view[n]
	}
	return nil
}

// resolve maps a block-number argument (nil / tag / number) to a block of the given view.
func (c *Chain) resolve(view []*FBlock, fin, safe uint64, n *big.Int) *FBlock {
	if n == nil {
		return view[len(view)-1]
	}
	if n.Sign() < 0 {
		switch n.Int64() {
		case -3:
			return c.ByNumber(view, min(fin, uint64(len(view)-1)))
		case -4:
			return c.ByNumber(view, min(safe, uint64(len(view)-1)))
		default: // latest, pending
			return view[len(view)-1]
		}
	}
	if !n.IsUint64() {
		return nil
	}
	return c.ByNumber(view, n.Uint64())
}

// FilterLogs returns logs of canonical blocks in [from,to] emitted by one of addrs (all if empty).
func (c *Chain) FilterLogs(view []*FBlock, from, to uint64, addrs []common.Address) []types.Log {
	out := []types.Log{}
	if to >= uint64(len(view)) {
		to = uint64(len(view) - 1)
	}
	for n := from; n <= to && n < uint64(len(view)); n++ {
		for _, l := range view[n].Logs {
			if len(addrs) > 0 {
				ok := false
				for _, a := range addrs {
					if a == l.Address {
						ok = true
					}
				}
				if !ok {
					continue
				}
			}
			out = append(out, l)
		}
	}
	return out
}

// IsCanonical says whether (num,hash) is on the canonical chain now.
func (c *Chain) IsCanonical(num uint64, hash common.Hash) bool {
	return num < uint64(len(c.Canon)) && c.Canon[num].Hash == hash
}

func sortedU64(m map[uint64]bool) []uint64 {
	out := make([]uint64, 0, len(m))
	for k := range m {
		out = append(out, k)
	}
	sort.Slice(out, func(i, j int) bool { return out[i] < out[j] })
	return out
}

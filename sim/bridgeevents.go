package sim

// ABI-encoded bridge events (BridgeEvent, ClaimEvent of both contract
// generations), generated call trees for debug_traceTransaction and the view
// functions the bridge syncer's constructor calls, for the fake chain.

import (
	"errors"
	"math/big"

	"github.com/0xPolygon/cdk-contracts-tooling/contracts/fep/etrog/polygonzkevmbridge"
	"github.com/0xPolygon/cdk-contracts-tooling/contracts/pp/l2-sovereign-chain/polygonzkevmbridgev2"
	"github.com/agglayer/aggkit/bridgesync"
	"github.com/ethereum/go-ethereum/common"
)

var (
	addrBridge   = common.HexToAddress("0x00000000000000000000000000000000000b0001")
	addrGasToken = common.HexToAddress("0x00000000000000000000000000000000000b00aa")
	bridgeV2ABI  = mustABI(polygonzkevmbridgev2.Polygonzkevmbridgev2MetaData.GetAbi())
	bridgeV1ABI  = mustABI(polygonzkevmbridge.PolygonzkevmbridgeMetaData.GetAbi())
)

// bridgeCallFn serves the bridge contract's view functions used by the node.
func bridgeCallFn(depositCount func(at *FBlock) uint32) func(c *Chain, at *FBlock, to common.Address, data []byte) ([]byte, error) {
	return func(c *Chain, at *FBlock, to common.Address, data []byte) ([]byte, error) {
		if to != addrBridge || len(data) < 4 {
			return nil, errors.New("execution reverted")
		}
		m, err := bridgeV2ABI.MethodById(data[:4])
		if err != nil {
			return nil, errors.New("execution reverted")
		}
		switch m.Name {
		case "lastUpdatedDepositCount":
			return m.Outputs.Pack(depositCount(at))
		case "depositCount":
			return m.Outputs.Pack(new(big.Int).SetUint64(uint64(depositCount(at))))
		case "gasTokenAddress":
			return m.Outputs.Pack(addrGasToken)
		case "gasTokenNetwork", "networkID":
			return m.Outputs.Pack(uint32(1))
		}
		return nil, errors.New("execution reverted")
	}
}

// ClaimCallSpec is one generated claim call (the calldata a claim event can match).
type ClaimCallSpec struct {
	Etrog      bool
	IsMessage  bool
	GlobalIdx  *big.Int
	ProofLER   [32]common.Hash
	ProofRER   [32]common.Hash
	MER, RER   common.Hash
	OrigNet    uint32
	OrigAddr   common.Address
	DestNet    uint32
	DestAddr   common.Address
	Amount     *big.Int
	Metadata   []byte
	Sender     common.Address
}

func (s *ClaimCallSpec) Calldata() []byte {
	toArr := func(p [32]common.Hash) [32][32]byte {
		var o [32][32]byte
		for i := range p {
			o[i] = p[i]
		}
		return o
	}
	if s.Etrog {
		name := "claimAsset"
		if s.IsMessage {
			name = "claimMessage"
		}
		m := bridgeV2ABI.Methods[name]
		in, err := m.Inputs.Pack(toArr(s.ProofLER), toArr(s.ProofRER), s.GlobalIdx, [32]byte(s.MER), [32]byte(s.RER), s.OrigNet, s.OrigAddr, s.DestNet, s.DestAddr, s.Amount, s.Metadata)
		if err != nil {
			panic(err)
		}
		return append(append([]byte{}, m.ID...), in...)
	}
	name := "claimAsset"
	if s.IsMessage {
		name = "claimMessage"
	}
	m := bridgeV1ABI.Methods[name]
	in, err := m.Inputs.Pack(toArr(s.ProofLER), uint32(s.GlobalIdx.Uint64()), [32]byte(s.MER), [32]byte(s.RER), s.OrigNet, s.OrigAddr, s.DestNet, s.DestAddr, s.Amount, s.Metadata)
	if err != nil {
		panic(err)
	}
	return append(append([]byte{}, m.ID...), in...)
}

func genClaimCall(r *Rand, etrog bool, gi *big.Int) *ClaimCallSpec {
	s := &ClaimCallSpec{Etrog: etrog, IsMessage: r.Bool(40), GlobalIdx: new(big.Int).Set(gi), MER: genHash(r), RER: genHash(r),
		OrigNet: genNet(r), OrigAddr: genAddr(r), DestNet: genNet(r), DestAddr: genAddr(r), Amount: genAmount(r), Metadata: genMeta(r), Sender: common.BytesToAddress(r.Bytes(20))}
	if len(s.Metadata) > 300 {
		s.Metadata = s.Metadata[:300]
	}
	for i := range s.ProofLER {
		s.ProofLER[i] = genHash(r)
		if etrog {
			s.ProofRER[i] = genHash(r)
		}
	}
	return s
}

// expectedClaim is what the node must record for a claim event matched to call spec s.
func expectedClaim(ev *bridgesync.Claim, s *ClaimCallSpec) bridgesync.Claim {
	c := *ev
	c.ProofLocalExitRoot = s.ProofLER
	if s.Etrog {
		c.ProofRollupExitRoot = s.ProofRER
	}
	c.MainnetExitRoot, c.RollupExitRoot = s.MER, s.RER
	c.GlobalExitRoot = keccak2(s.MER, s.RER)
	c.DestinationNetwork = s.DestNet
	c.Metadata = s.Metadata
	c.IsMessage = s.IsMessage
	c.FromAddress = s.Sender
	return c
}

func strp(s string) *string { return &s }

package sim

// C01: the synced exit-tree root equals the bridge contract's root at every deposit.
// Engine: storesim + the real PolygonZkEVMBridgeV2 in go-ethereum's in-process EVM
// as oracle and event source (outside any bubble). The node side is the real bridge
// appender (event decoding, call extraction) and the real processor + tree + SQLite.
// High leaf indices / 2^k carries: synthetic pre-states checked against a naive
// node-level sparse reference (itself validated against the contract on low indices).

import (
	"context"
	"crypto/ecdsa"
	"encoding/json"
	"errors"
	"fmt"
	"math/big"
	"os"
	"path/filepath"
	"time"

	"github.com/0xPolygon/cdk-contracts-tooling/contracts/pp/l2-sovereign-chain/polygonzkevmbridgev2"
	"github.com/agglayer/aggkit/bridgesync"
	aggsync "github.com/agglayer/aggkit/sync"
	"github.com/agglayer/aggkit/test/contracts/transparentupgradableproxy"
	"github.com/ethereum/go-ethereum"
	"github.com/ethereum/go-ethereum/accounts/abi/bind"
	"github.com/ethereum/go-ethereum/common"
	ethtypes "github.com/ethereum/go-ethereum/core/types"
	"github.com/ethereum/go-ethereum/crypto"
	"github.com/ethereum/go-ethereum/ethclient/simulated"
)

func C01Config(prop string, r *Rand, tier string) map[string]int64 {
	c := map[string]int64{}
	c["ops"] = int64(r.Range(15, 60))
	if tier == "thorough" {
		c["ops"] = int64(r.Range(20, 140))
	}
	c["w_deposit"] = int64(r.Range(30, 60))
	c["w_commit"] = int64(r.Range(8, 30))
	c["w_restart"] = int64(r.Range(0, 10))
	c["w_leaf"] = int64(r.Range(3, 12))
	c["w_high"] = int64(r.Range(2, 8))
	// % of deposit transactions whose first trace request fails (transient RPC failure)
	c["p_tracefail"] = int64([]int{0, 0, 10, 30}[r.Intn(4)])
	return c
}

// evmClient is the simulated chain's client plus the trace RPC the bridge appender needs.
type evmClient struct {
	simulated.Client
	traces map[common.Hash]*TraceCall
	// transient failures of the trace RPC: the first request for a transaction fails when its hash says so
	pFail  int
	asked  map[common.Hash]int
	failed int
}

var errTraceUnavailable = errors.New("injected transient debug_traceTransaction failure")

func (e *evmClient) Call(result any, method string, args ...any) error {
	if method != "debug_traceTransaction" || len(args) == 0 {
		return errors.New("method not served")
	}
	h, _ := args[0].(common.Hash)
	if e.asked == nil {
		e.asked = map[common.Hash]int{}
	}
	e.asked[h]++
	if e.asked[h] == 1 && int(h[31])%100 < e.pFail {
		e.failed++
		return errTraceUnavailable
	}
	t, ok := e.traces[h]
	if !ok {
		return fmt.Errorf("transaction %s not found", h.Hex())
	}
	b, err := json.Marshal(traceJSON(t))
	if err != nil {
		return err
	}
	return json.Unmarshal(b, result)
}

// refNodes: naive sparse tree whose entries may sit at any level (complete subtrees given by hash).
type refNodes struct {
	n map[[2]uint64]common.Hash // (level, index) -> hash
}

func (t *refNodes) root() common.Hash {
	cur := map[uint64]common.Hash{}
	for h := 0; h < refHeight; h++ {
		for k, v := range t.n {
			if k[0] == uint64(h) {
				cur[k[1]] = v
			}
		}
		next := map[uint64]common.Hash{}
		for idx := range cur {
			p := idx >> 1
			if _, done := next[p]; done {
				continue
			}
			l, okl := cur[p<<1]
			r, okr := cur[p<<1|1]
			if !okl {
				l = refZero[h]
			}
			if !okr {
				r = refZero[h]
			}
			next[p] = keccak2(l, r)
		}
		cur = next
	}
	if v, ok := cur[0]; ok {
		return v
	}
	return refZero[refHeight]
}

func RunC01(prop string, tr *Trace, sc *Script, rec *Recorder, scratch string) (viol *Violation) {
	InstallSQLiteHooks()
	defer func() {
		if r := recover(); r != nil {
			viol = &Violation{Oracle: "harness", Detail: fmt.Sprintf("panic: %v", r)}
		}
	}()
	cfg := tr.Cfg
	dir := filepath.Join(scratch, fmt.Sprintf("c01-%d-%d", tr.Seed, tr.Run))
	os.RemoveAll(dir)
	os.MkdirAll(dir, 0o755)
	defer os.RemoveAll(dir)
	fail := func(oracle, sig, format string, a ...any) *Violation {
		return &Violation{Oracle: oracle, Sig: "c01/" + sig, Detail: fmt.Sprintf(format, a...)}
	}

	// ---- the chain: real bridge contract behind a proxy in the in-process EVM
	kr := NewRand(tr.Seed ^ 0xc01)
	var key *ecdsa.PrivateKey
	for key == nil {
		k, err := crypto.ToECDSA(kr.Bytes(32))
		if err == nil {
			key = k
		}
	}
	auth, err := bind.NewKeyedTransactorWithChainID(key, big.NewInt(1337))
	if err != nil {
		return &Violation{Oracle: "harness", Detail: err.Error()}
	}
	bal := new(big.Int).Lsh(big.NewInt(1), 200)
	backend := simulated.NewBackend(map[common.Address]ethtypes.Account{auth.From: {Balance: bal}}, simulated.WithBlockGasLimit(999999999999999999))
	defer backend.Close()
	cl := backend.Client()
	implAddr, _, _, err := polygonzkevmbridgev2.DeployPolygonzkevmbridgev2(auth, cl)
	if err != nil {
		return &Violation{Oracle: "harness", Detail: "deploy bridge: " + err.Error()}
	}
	commitAll(backend, cl, 1)
	babi := bridgeV2ABI
	initData, err := babi.Pack("initialize", uint32(0), common.Address{}, uint32(0), common.HexToAddress("0x1234"), common.Address{}, []byte{})
	if err != nil {
		return &Violation{Oracle: "harness", Detail: err.Error()}
	}
	proxyAddr, _, _, err := transparentupgradableproxy.DeployTransparentupgradableproxy(auth, cl, implAddr, common.HexToAddress("0xad"), initData)
	if err != nil {
		return &Violation{Oracle: "harness", Detail: "deploy proxy: " + err.Error()}
	}
	commitAll(backend, cl, 1)
	bridge, err := polygonzkevmbridgev2.NewPolygonzkevmbridgev2(proxyAddr, cl)
	if err != nil {
		return &Violation{Oracle: "harness", Detail: err.Error()}
	}
	ec := &evmClient{Client: cl, traces: map[common.Hash]*TraceCall{}, pFail: int(cfg["p_tracefail"])}
	appender, err := bridgesync.VerifBuildAppender(ec, proxyAddr, false)
	if err != nil {
		return &Violation{Oracle: "harness", Detail: "appender: " + err.Error()}
	}

	// ---- the node: real processor
	store := NewBridgeStore(filepath.Join(dir, "bridge.sqlite"))
	if err := store.Open(); err != nil {
		return &Violation{Oracle: "harness", Detail: err.Error()}
	}
	defer store.Close()
	ref := &RefAppend{}
	var refDeposits []refDeposit
	head, _ := cl.HeaderByNumber(context.Background(), nil)
	lastSynced := head.Number.Uint64()
	pending := 0
	// nonces are assigned here: the pool promotes transactions asynchronously, PendingNonceAt may lag
	nextNonce, err := cl.PendingNonceAt(context.Background(), auth.From)
	if err != nil {
		return &Violation{Oracle: "harness", Detail: err.Error()}
	}

	syncBlocks := func() *Violation {
		h, err := cl.HeaderByNumber(context.Background(), nil)
		if err != nil {
			return &Violation{Oracle: "harness", Detail: err.Error()}
		}
		for n := lastSynced + 1; n <= h.Number.Uint64(); n++ {
			hdr, err := cl.HeaderByNumber(context.Background(), new(big.Int).SetUint64(n))
			if err != nil {
				return &Violation{Oracle: "harness", Detail: err.Error()}
			}
			logs, err := cl.FilterLogs(context.Background(), ethereum.FilterQuery{FromBlock: hdr.Number, ToBlock: hdr.Number, Addresses: []common.Address{proxyAddr}})
			if err != nil {
				return &Violation{Oracle: "harness", Detail: err.Error()}
			}
			blk := &aggsync.EVMBlock{EVMBlockHeader: aggsync.EVMBlockHeader{Num: n, Hash: hdr.Hash(), ParentHash: hdr.ParentHash, Timestamp: hdr.Time}}
			for _, l := range logs {
				fn, ok := appender[l.Topics[0]]
				if !ok {
					continue
				}
				// like sync.EVMDownloader (getEventsByBlockRangeWithRetry): an appender that fails is called again with
				// the same block and the same log until it succeeds
				for attempt := 0; ; attempt++ {
					err := fn(blk, l)
					if err == nil {
						break
					}
					if !errors.Is(err, errTraceUnavailable) || attempt >= 3 {
						return fail("decode", "appender-error", "the bridge appender failed on a real BridgeEvent log: %v", err)
					}
					rec.Stats.Inc("fault_trace_rpc_failed_appender_retried")
				}
			}
			if err := store.P.ProcessBlock(bg, aggsync.Block{Num: n, Hash: hdr.Hash(), Events: blk.Events}); err != nil {
				return fail("process", "process-error", "ProcessBlock(%d) with %d real deposits failed: %v", n, len(blk.Events), err)
			}
			// the contract's root is readable at block granularity: compare at the last deposit of the block
			if len(blk.Events) > 0 {
				last := blk.Events[len(blk.Events)-1].(bridgesync.Event).Bridge
				want, err := bridge.GetRoot(&bind.CallOpts{BlockNumber: hdr.Number})
				if err != nil {
					return &Violation{Oracle: "harness", Detail: "getRoot: " + err.Error()}
				}
				got, err := store.F.GetExitRootByIndex(bg, last.DepositCount)
				if err != nil {
					return fail("root", "root-missing", "GetExitRootByIndex(%d): %v", last.DepositCount, err)
				}
				if got.Hash != common.Hash(want) {
					return fail("root", "root-vs-contract", "exit root for deposit count %d is %s, the bridge contract holds %s after that deposit (block %d)", last.DepositCount, got.Hash.Hex(), common.Hash(want).Hex(), n)
				}
				rec.Stats.Inc("roots_checked_against_contract")
				// the reference tree is only trusted because it agrees with the contract here
				if int(last.DepositCount) < len(ref.Roots) && ref.Roots[last.DepositCount] != common.Hash(want) {
					return &Violation{Oracle: "harness", Detail: "reference tree disagrees with the contract"}
				}
			}
			for _, e := range blk.Events {
				b := e.(bridgesync.Event).Bridge
				if b == nil {
					continue
				}
				// every deposit of the block (also the non-final ones): root vs the reference validated above
				got, err := store.F.GetExitRootByIndex(bg, b.DepositCount)
				if err != nil || int(b.DepositCount) >= len(ref.Roots) || got.Hash != ref.Roots[b.DepositCount] {
					return fail("root", "root-vs-reference", "exit root for deposit count %d (block %d) differs from the reference (err=%v)", b.DepositCount, n, err)
				}
				d := refDeposits[b.DepositCount]
				if b.LeafType != d.LeafType || b.OriginNetwork != d.OrigNet || b.OriginAddress != d.OrigAddr || b.DestinationNetwork != d.DestNet ||
					b.DestinationAddress != d.DestAddr || b.Amount.Cmp(d.Amount) != 0 || string(b.Metadata) != string(d.Metadata) {
					return fail("decode", "decoded-fields", "deposit %d decoded as %s, sent %+v", b.DepositCount, js(b), d)
				}
				mh := keccakBytes(b.Metadata)
				lv, err := bridge.GetLeafValue(&bind.CallOpts{}, b.LeafType, b.OriginNetwork, b.OriginAddress, b.DestinationNetwork, b.DestinationAddress, b.Amount, mh)
				if err != nil {
					return &Violation{Oracle: "harness", Detail: "getLeafValue: " + err.Error()}
				}
				if b.Hash() != common.Hash(lv) {
					return fail("leaf", "leaf-vs-contract", "Bridge.Hash() for deposit %d = %s, contract getLeafValue = %s", b.DepositCount, b.Hash().Hex(), common.Hash(lv).Hex())
				}
				rec.Stats.Inc("leaves_checked_against_contract")
			}
			lastSynced = n
		}
		return nil
	}

	gen := func(r *Rand) (Op, bool) {
		switch r.Pick([]int{int(cfg["w_deposit"]), int(cfg["w_commit"]), int(cfg["w_restart"]), int(cfg["w_leaf"]), int(cfg["w_high"])}) {
		case 0:
			return Op{K: "deposit", A: []int64{int64(r.U64() >> 1)}}, true
		case 1:
			return Op{K: "commit"}, true
		case 2:
			return Op{K: "restart"}, true
		case 3:
			return Op{K: "leaf", A: []int64{int64(r.U64() >> 1)}}, true
		default:
			return Op{K: "high", A: []int64{int64(r.U64() >> 1)}}, true
		}
	}
	for {
		op, ok := sc.Next(gen)
		if !ok {
			break
		}
		rec.Event("op %s", op)
		switch op.K {
		case "deposit":
			if pending >= 10 {
				// the transaction pool keeps a bounded number of pending transactions per account
				commitAll(backend, cl, pending)
				pending = 0
				if v := syncBlocks(); v != nil {
					return v
				}
			}
			r := NewRand(uint64(op.Arg(0)))
			d := refDeposit{OrigNet: 0, DestNet: uint32(1 + r.Intn(5)), DestAddr: genAddr(r)}
			if r.Bool(10) {
				d.DestNet = 0xFFFFFFFF
			}
			opts := *auth
			opts.GasLimit = 3000000
			opts.Nonce = new(big.Int).SetUint64(nextNonce)
			nextNonce++
			var tx *ethtypes.Transaction
			native := r.Bool(50)
			if native { // native asset: leaf type 0, origin address 0, empty metadata
				d.LeafType = 0
				d.Amount = new(big.Int).SetUint64(r.U64() % 1000000000)
				if r.Bool(20) {
					d.Amount = big.NewInt(0)
				}
				if r.Bool(10) {
					d.Amount = new(big.Int).Lsh(big.NewInt(1), uint(r.Intn(150)))
				}
				d.Metadata = []byte{}
			} else { // message: leaf type 1, origin address = sender, arbitrary metadata
				d.LeafType = 1
				d.OrigAddr = auth.From
				d.Amount = new(big.Int).SetUint64(r.U64() % 1000)
				d.Metadata = genMeta(r)
			}
			// the same bridge made again (the leaf value does not contain the deposit count):
			// equal leaves at two positions of the exit tree
			if len(refDeposits) > 0 && r.Bool(18) {
				pd := refDeposits[len(refDeposits)-1-r.Intn(min(len(refDeposits), 4))]
				d = refDeposit{LeafType: pd.LeafType, OrigNet: pd.OrigNet, OrigAddr: pd.OrigAddr, DestNet: pd.DestNet, DestAddr: pd.DestAddr,
					Amount: new(big.Int).Set(pd.Amount), Metadata: append([]byte{}, pd.Metadata...)}
				native = d.LeafType == 0
				rec.Stats.Inc("repeated_deposits")
			}
			opts.Value = d.Amount
			if native {
				tx, err = bridge.BridgeAsset(&opts, d.DestNet, d.DestAddr, d.Amount, common.Address{}, false, []byte{})
			} else {
				tx, err = bridge.BridgeMessage(&opts, d.DestNet, d.DestAddr, false, d.Metadata)
			}
			if err != nil {
				return &Violation{Oracle: "harness", Detail: "bridge tx: " + err.Error()}
			}
			ec.traces[tx.Hash()] = &TraceCall{From: auth.From, To: proxyAddr, Input: tx.Data()}
			d.Leaf = refBridgeLeaf(d.LeafType, d.OrigNet, d.OrigAddr, d.DestNet, d.DestAddr, d.Amount, d.Metadata)
			refDeposits = append(refDeposits, d)
			ref.Append(d.Leaf)
			pending++
			rec.Stats.Inc("deposits")
			rec.Step(fmt.Sprintf("D%d", d.LeafType))
		case "commit":
			commitAll(backend, cl, pending)
			if pending > 1 {
				rec.Stats.Inc("blocks_with_several_deposits")
			}
			pending = 0
			if v := syncBlocks(); v != nil {
				return v
			}
			rec.Step("C")
		case "restart":
			store.Close()
			if err := store.Open(); err != nil {
				return &Violation{Oracle: "harness", Detail: err.Error()}
			}
			rec.Stats.Inc("restarts")
			rec.Step("S")
		case "leaf":
			// pure leaf-value probe with extreme field values (0 / 2^256-1 amounts, long metadata ...)
			r := NewRand(uint64(op.Arg(0)))
			b := &bridgesync.Bridge{LeafType: uint8(r.Intn(2)), OriginNetwork: genNet(r), OriginAddress: genAddr(r), DestinationNetwork: genNet(r),
				DestinationAddress: genAddr(r), Amount: genAmount(r), Metadata: genMeta(r)}
			if r.Bool(10) {
				b.Amount = nil
			}
			am := b.Amount
			if am == nil {
				am = big.NewInt(0)
			}
			lv, err := bridge.GetLeafValue(&bind.CallOpts{}, b.LeafType, b.OriginNetwork, b.OriginAddress, b.DestinationNetwork, b.DestinationAddress, am, keccakBytes(b.Metadata))
			if err != nil {
				return &Violation{Oracle: "harness", Detail: "getLeafValue: " + err.Error()}
			}
			if refBridgeLeaf(b.LeafType, b.OriginNetwork, b.OriginAddress, b.DestinationNetwork, b.DestinationAddress, am, b.Metadata) != common.Hash(lv) {
				return &Violation{Oracle: "harness", Detail: "reference leaf value disagrees with the contract"}
			}
			if b.Hash() != common.Hash(lv) {
				return fail("leaf", "leaf-vs-contract", "Bridge.Hash() = %s but the contract's getLeafValue = %s for %s", b.Hash().Hex(), common.Hash(lv).Hex(), js(b))
			}
			rec.Stats.Inc("leaf_probes")
			rec.Step("L")
		case "high":
			if v := c01HighIndex(uint64(op.Arg(0)), dir, rec, fail); v != nil {
				return v
			}
			rec.Step("H")
		}
		rec.State(fmt.Sprintf("%d:%d", len(refDeposits), lastSynced))
	}
	commitAll(backend, cl, pending)
	if v := syncBlocks(); v != nil {
		return v
	}
	// every root the node reports equals the contract's / reference, also after the last restart
	for i := range ref.Roots {
		got, err := store.F.GetExitRootByIndex(bg, uint32(i))
		if err != nil || got.Hash != ref.Roots[i] {
			return fail("root", "root-vs-reference", "final: exit root for deposit count %d differs from the reference (err=%v)", i, err)
		}
	}
	return nil
}

// c01HighIndex: a synthetic pre-state whose last leaf index is near a 2^k boundary; real AddLeaf
// continues from it (through initCache) and every new root is compared with the naive node-level reference.
func c01HighIndex(seed uint64, dir string, rec *Recorder, fail func(string, string, string, ...any) *Violation) *Violation {
	r := NewRand(seed)
	k := r.Range(3, 31)
	var L uint64
	switch r.Intn(5) {
	case 0:
		L = (uint64(1) << k) - 2
	case 1:
		L = (uint64(1) << k) - 1
	case 2:
		L = uint64(1) << k
	case 3:
		L = (uint64(1) << 32) - uint64(r.Range(3, 8))
	default:
		L = r.U64() % (uint64(1) << 32)
		if L > (uint64(1)<<32)-8 {
			L = (uint64(1) << 32) - 8
		}
	}
	path := filepath.Join(dir, fmt.Sprintf("high-%d.sqlite", seed))
	st := NewBridgeStore(path)
	if err := st.Open(); err != nil {
		return &Violation{Oracle: "harness", Detail: err.Error()}
	}
	defer func() { st.Close(); removeDBFiles(path) }()
	refT := &refNodes{n: map[[2]uint64]common.Hash{}}
	x := genHash(r)
	refT.n[[2]uint64{0, L}] = x
	node := x
	db := st.P.DB()
	if _, err := db.Exec(`INSERT INTO block (num, hash) VALUES (1, '0x01')`); err != nil {
		return &Violation{Oracle: "harness", Detail: err.Error()}
	}
	for h := 0; h < refHeight; h++ {
		var left, right common.Hash
		if (L>>h)&1 == 1 {
			s := genHash(r)
			refT.n[[2]uint64{uint64(h), (L >> h) ^ 1}] = s
			left, right = s, node
		} else {
			left, right = node, refZero[h]
		}
		parent := keccak2(left, right)
		if _, err := db.Exec(`INSERT OR IGNORE INTO rht (hash, left, right) VALUES (?, ?, ?)`, parent.Hex(), left.Hex(), right.Hex()); err != nil {
			return &Violation{Oracle: "harness", Detail: err.Error()}
		}
		node = parent
	}
	if refT.root() != node {
		return &Violation{Oracle: "harness", Detail: "node-level reference disagrees with the fabricated path"}
	}
	if _, err := db.Exec(`INSERT INTO root (hash, position, block_num, block_position) VALUES (?, ?, 1, 0)`, node.Hex(), L); err != nil {
		return &Violation{Oracle: "harness", Detail: err.Error()}
	}
	// real deposits cross the boundary, several per block, with a restart in between
	idx := L + 1
	blockNum := uint64(2)
	for b := 0; b < 3 && idx < (uint64(1)<<32); b++ {
		n := r.Range(1, 3)
		evs := []interface{}{}
		var leaves []common.Hash
		for i := 0; i < n && idx < (uint64(1)<<32); i++ {
			br := &bridgesync.Bridge{BlockNum: blockNum, BlockPos: uint64(i), LeafType: uint8(r.Intn(2)), OriginNetwork: genNet(r), OriginAddress: genAddr(r),
				DestinationNetwork: genNet(r), DestinationAddress: genAddr(r), Amount: genAmount(r), Metadata: genMeta(r), DepositCount: uint32(idx), TxHash: genHash(r)}
			evs = append(evs, bridgesync.Event{Bridge: br})
			leaves = append(leaves, refBridgeLeaf(br.LeafType, br.OriginNetwork, br.OriginAddress, br.DestinationNetwork, br.DestinationAddress, br.Amount, br.Metadata))
			idx++
		}
		if err := st.P.ProcessBlock(bg, aggsync.Block{Num: blockNum, Hash: blockHash(blockNum, seed), Events: evs}); err != nil {
			return fail("process", "high-index-process", "ProcessBlock with deposit counts from %d (pre-state last index %d) failed: %v", idx-uint64(len(leaves)), L, err)
		}
		for i, lf := range leaves {
			pos := idx - uint64(len(leaves)) + uint64(i)
			refT.n[[2]uint64{0, pos}] = lf
			// the root after this leaf: later leaves of the block must not be in the reference yet
			tmp := &refNodes{n: map[[2]uint64]common.Hash{}}
			for k2, v := range refT.n {
				tmp.n[k2] = v
			}
			for j := i + 1; j < len(leaves); j++ {
				delete(tmp.n, [2]uint64{0, idx - uint64(len(leaves)) + uint64(j)})
			}
			got, err := st.F.GetExitRootByIndex(bg, uint32(pos))
			if err != nil {
				return fail("root", "high-index-root-missing", "GetExitRootByIndex(%d): %v", pos, err)
			}
			if got.Hash != tmp.root() {
				return fail("root", "high-index-root", "exit root for deposit count %d (pre-state last index %d = 2^%d region) is %s, the reference says %s", pos, L, k, got.Hash.Hex(), tmp.root().Hex())
			}
			rec.Stats.Inc("high_index_roots_checked")
		}
		blockNum++
		if r.Bool(40) {
			st.Close()
			if err := st.Open(); err != nil {
				return &Violation{Oracle: "harness", Detail: err.Error()}
			}
			db = st.P.DB()
		}
	}
	return nil
}

func init() {
	register(&PropSpec{ID: "C01", Engine: "storesim+evm", Config: C01Config, Run: RunC01,
		OpLimit:    func(cfg map[string]int64) int { return int(cfg["ops"]) },
		Nontrivial: func(s Stats) bool { return s["roots_checked_against_contract"] >= 2 }})
}

// commitAll seals a block once the pool reports all sent transactions as pending (the pool
// promotes transactions asynchronously; sealing earlier would split them over two blocks
// depending on wall-clock timing).
func commitAll(backend *simulated.Backend, cl simulated.Client, want int) {
	for i := 0; i < 4000 && want > 0; i++ {
		n, err := cl.PendingTransactionCount(context.Background())
		if err == nil && int(n) >= want {
			break
		}
		time.Sleep(500 * time.Microsecond)
	}
	backend.Commit()
}

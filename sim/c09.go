package sim

// C09: claim proofs inside a certificate verify against the L1 info root it names.
// The joint L1/L2 reference: mainnet exit tree (L1 deposits), other rollups' local
// exit trees, the rollup exit tree and the L1 info tree; L2 claims carry proofs
// computed by the reference trees; the oracle re-verifies every proof of the wire
// message with the independent verifier.

import (
	"fmt"
	"math/big"
	"sort"

	v1types "buf.build/gen/go/agglayer/interop/protocolbuffers/go/agglayer/interop/types/v1"
	"github.com/agglayer/aggkit/bridgesync"
	"github.com/ethereum/go-ethereum/common"
)

type refDeposit struct {
	LeafType uint8
	OrigNet  uint32
	OrigAddr common.Address
	DestNet  uint32
	DestAddr common.Address
	Amount   *big.Int
	Metadata []byte
	Leaf     common.Hash
}

// l1Snapshot: what the exit trees looked like when an L1 info leaf was created.
type l1Snapshot struct {
	NMainnet int
	NRollup  map[uint32]int // deposits per other rollup (rollup index = id-1)
	LERs     map[uint32]common.Hash
	MER, RER common.Hash
}

type claimWorld struct {
	Mainnet  []refDeposit
	mTree    RefAppend
	Rollups  map[uint32][]refDeposit // by rollup index (0-based); our own network is rollup index 0
	rTrees   map[uint32]*RefAppend
	rollupET *RefSparse
	Snaps    map[common.Hash]*l1Snapshot // by GER
}

func newClaimWorld() *claimWorld {
	return &claimWorld{Rollups: map[uint32][]refDeposit{}, rTrees: map[uint32]*RefAppend{}, rollupET: NewRefSparse(), Snaps: map[common.Hash]*l1Snapshot{}}
}

func genDeposit(r *Rand, destNet uint32) refDeposit {
	d := refDeposit{LeafType: uint8(r.Intn(2)), OrigNet: genNet(r), OrigAddr: genAddr(r), DestNet: destNet, DestAddr: genAddr(r), Amount: genAmount(r), Metadata: genMeta(r)}
	if len(d.Metadata) > 120 {
		d.Metadata = d.Metadata[:120]
	}
	d.Leaf = refBridgeLeaf(d.LeafType, d.OrigNet, d.OrigAddr, d.DestNet, d.DestAddr, d.Amount, d.Metadata)
	return d
}

// NextRoots adds some deposits on L1 / other rollups and returns the exit roots of the next L1 info leaf.
func (c *claimWorld) NextRoots(r *Rand) (common.Hash, common.Hash) {
	// always at least one new mainnet deposit: the GER of every leaf is unique
	for i := 0; i < 1+r.Intn(2); i++ {
		d := genDeposit(r, senderNetworkID)
		c.Mainnet = append(c.Mainnet, d)
		c.mTree.Append(d.Leaf)
	}
	if r.Bool(60) {
		idx := uint32(1 + r.Intn(3)) // other rollups: indexes 1..3
		if r.Bool(10) {
			idx = uint32(4 + r.Intn(60))
		}
		t := c.rTrees[idx]
		if t == nil {
			t = &RefAppend{}
			c.rTrees[idx] = t
		}
		for i := 0; i < 1+r.Intn(2); i++ {
			d := genDeposit(r, senderNetworkID)
			c.Rollups[idx] = append(c.Rollups[idx], d)
			t.Append(d.Leaf)
		}
		c.rollupET.Set(idx, t.Roots[len(t.Roots)-1])
	}
	mer := c.mTree.Roots[len(c.mTree.Roots)-1]
	rer := c.rollupET.Root()
	s := &l1Snapshot{NMainnet: len(c.Mainnet), NRollup: map[uint32]int{}, LERs: map[uint32]common.Hash{}, MER: mer, RER: rer}
	for k, v := range c.Rollups {
		s.NRollup[k] = len(v)
		s.LERs[k] = c.rTrees[k].Roots[len(v)-1]
	}
	c.Snaps[keccak2(mer, rer)] = s
	return mer, rer
}

// rollupProofAt: proof of rollup idx's LER in the rollup exit tree as of snapshot s.
func (c *claimWorld) rollupProofAt(s *l1Snapshot, idx uint32) [32]common.Hash {
	t := NewRefSparse()
	for k, v := range s.LERs {
		t.Set(k, v)
	}
	return t.Proof(idx)
}

// GenClaim builds a claim event (with real proofs) against L1 info leaf `leaf`.
func (c *claimWorld) GenClaim(r *Rand, leaf L1Leaf, num, pos, ts uint64) *bridgesync.Claim {
	s := c.Snaps[leaf.GER]
	if s == nil {
		return nil
	}
	var rids []uint32
	for k, n := range s.NRollup {
		if n > 0 {
			rids = append(rids, k)
		}
	}
	sort.Slice(rids, func(i, j int) bool { return rids[i] < rids[j] })
	mainnet := len(rids) == 0 || r.Bool(50)
	var d refDeposit
	var pl, pr [32]common.Hash
	var gi *big.Int
	if mainnet {
		j := r.Intn(s.NMainnet)
		d = c.Mainnet[j]
		pl = c.mTree.ProofAt(uint32(j), s.NMainnet)
		gi = refGlobalIndex(true, 0, uint32(j))
	} else {
		idx := rids[r.Intn(len(rids))]
		j := r.Intn(s.NRollup[idx])
		d = c.Rollups[idx][j]
		pl = c.rTrees[idx].ProofAt(uint32(j), s.NRollup[idx])
		pr = c.rollupProofAt(s, idx)
		gi = refGlobalIndex(false, idx, uint32(j))
	}
	return &bridgesync.Claim{BlockNum: num, BlockPos: pos, FromAddress: genAddr(r), TxHash: genHash(r), GlobalIndex: gi,
		OriginNetwork: d.OrigNet, OriginAddress: d.OrigAddr, DestinationAddress: d.DestAddr, Amount: new(big.Int).Set(d.Amount),
		ProofLocalExitRoot: pl, ProofRollupExitRoot: pr, MainnetExitRoot: leaf.MER, RollupExitRoot: leaf.RER, GlobalExitRoot: leaf.GER,
		DestinationNetwork: d.DestNet, Metadata: d.Metadata, IsMessage: d.LeafType == 1, BlockTimestamp: ts}
}

func siblings(p *v1types.MerkleProof) (out [32]common.Hash, ok bool) {
	if p == nil || len(p.Siblings) != 32 {
		return out, false
	}
	for i, s := range p.Siblings {
		out[i] = common.BytesToHash(s.Value)
	}
	return out, true
}

// checkClaimProofs is the C09 oracle over one certificate on the wire.
func (s *senderWorld) checkClaimProofs(sub *Submission) {
	c := sub.Wire
	if len(c.ImportedBridgeExits) == 0 {
		return
	}
	lc := uint32(0)
	if c.L1InfoTreeLeafCount != nil {
		lc = *c.L1InfoTreeLeafCount
	}
	if lc == 0 || int(lc) > len(s.l1g.Model.Tree.Roots) {
		s.fail("claim-proof", "c09/leaf-count", "certificate names L1 info leaf count %d; the L1 info tree has %d leaves", lc, len(s.l1g.Model.Tree.Roots))
		return
	}
	l1Root := s.l1g.Model.Tree.Roots[lc-1]
	for i, ibe := range c.ImportedBridgeExits {
		var leafCtx *v1types.L1InfoTreeLeafWithContext
		var gerProof *v1types.MerkleProof
		switch cl := ibe.Claim.(type) {
		case *v1types.ImportedBridgeExit_Mainnet:
			leafCtx, gerProof = cl.Mainnet.L1Leaf, cl.Mainnet.ProofGerL1Root
		case *v1types.ImportedBridgeExit_Rollup:
			leafCtx, gerProof = cl.Rollup.L1Leaf, cl.Rollup.ProofGerL1Root
		default:
			s.fail("claim-proof", "c09/no-claim-data", "imported exit %d has no claim data", i)
			return
		}
		if fb32(gerProof.Root) != l1Root {
			s.fail("claim-proof", "c09/l1-root-vs-leaf-count", "imported exit %d proves against L1 info root %s, but the root with the certificate's leaf count %d is %s", i, fb32(gerProof.Root).Hex()[:12], lc, l1Root.Hex()[:12])
			return
		}
		sib, ok := siblings(gerProof)
		if !ok {
			s.fail("claim-proof", "c09/proof-shape", "imported exit %d: L1 info proof does not have 32 siblings", i)
			return
		}
		if got := RefVerify(l1LeafHashProto(leafCtx), sib, leafCtx.L1InfoTreeIndex); got != l1Root {
			s.fail("claim-proof", "c09/l1-info-proof", "imported exit %d: the L1 info leaf (index %d) with its proof hashes to %s, not to the named L1 info root %s", i, leafCtx.L1InfoTreeIndex, got.Hex()[:12], l1Root.Hex()[:12])
			return
		}
		if leafCtx.L1InfoTreeIndex >= lc {
			s.fail("claim-proof", "c09/leaf-beyond-count", "imported exit %d uses L1 info leaf %d but the certificate's leaf count is %d", i, leafCtx.L1InfoTreeIndex, lc)
			return
		}
		mer, rer, ger := fb32(leafCtx.Mer), fb32(leafCtx.Rer), fb32(leafCtx.Inner.GlobalExitRoot)
		if keccak2(mer, rer) != ger {
			s.fail("claim-proof", "c09/ger", "imported exit %d: global exit root %s is not the hash of its mainnet and rollup exit roots", i, ger.Hex()[:12])
			return
		}
		// the claim this exit was built from (same position in the block range)
		_, cs := s.eventsIn(sub.From, sub.To)
		if i < len(cs) && cs[i].GlobalExitRoot != ger {
			s.fail("claim-proof", "c09/ger-vs-claim", "imported exit %d carries GER %s, the claim was made against %s", i, ger.Hex()[:12], cs[i].GlobalExitRoot.Hex()[:12])
			return
		}
		exitHash := refExitHashProto(ibe.BridgeExit)
		gi := wireGlobalIndex(ibe)
		leafIdx := uint32(new(big.Int).And(gi, big.NewInt(0xFFFFFFFF)).Uint64())
		rollupIdx := uint32(new(big.Int).And(new(big.Int).Rsh(gi, 32), big.NewInt(0xFFFFFFFF)).Uint64())
		switch cl := ibe.Claim.(type) {
		case *v1types.ImportedBridgeExit_Mainnet:
			p, ok := siblings(cl.Mainnet.ProofLeafMer)
			if !ok || RefVerify(exitHash, p, leafIdx) != mer || fb32(cl.Mainnet.ProofLeafMer.Root) != mer {
				s.fail("claim-proof", "c09/mainnet-leaf-proof", "imported exit %d (mainnet leaf %d): the exit does not hash with its proof to the mainnet exit root %s", i, leafIdx, mer.Hex()[:12])
				return
			}
		case *v1types.ImportedBridgeExit_Rollup:
			p, ok := siblings(cl.Rollup.ProofLeafLer)
			if !ok {
				s.fail("claim-proof", "c09/proof-shape", "imported exit %d: malformed proof", i)
				return
			}
			ler := RefVerify(exitHash, p, leafIdx)
			if ler != fb32(cl.Rollup.ProofLeafLer.Root) {
				s.fail("claim-proof", "c09/rollup-leaf-proof", "imported exit %d (rollup %d leaf %d): the exit does not hash with its proof to the stated local exit root", i, rollupIdx, leafIdx)
				return
			}
			p2, ok := siblings(cl.Rollup.ProofLerRer)
			if !ok || RefVerify(ler, p2, rollupIdx) != rer || fb32(cl.Rollup.ProofLerRer.Root) != rer {
				s.fail("claim-proof", "c09/ler-to-rer-proof", "imported exit %d (rollup %d): its local exit root does not hash with its proof to the rollup exit root %s", i, rollupIdx, rer.Hex()[:12])
				return
			}
		}
		s.rec.Stats.Inc("claim_proofs_verified")
	}
}

var _ = fmt.Sprint

package sim

// C18: each epoch is announced exactly once, at the first block past the threshold.
// Engine: syncsim. Real BlockNotifierPolling (adaptive timer on the fake clock)
// -> real EpochNotifierPerBlock -> recording subscriber, against a fake L1 head.

import (
	"context"
	"fmt"
	"sync"
	"time"

	"github.com/agglayer/aggkit/aggsender"
	aggsendertypes "github.com/agglayer/aggkit/aggsender/types"
	"github.com/agglayer/aggkit/log"
	aggkittypes "github.com/agglayer/aggkit/types"
)

func C18Config(prop string, r *Rand, tier string) map[string]int64 {
	c := map[string]int64{}
	lens := []int64{1, 1, 2, 2, 3, 4, 5, 7, 8, 10, 32}
	c["epoch_len"] = lens[r.Intn(len(lens))]
	if r.Bool(30) {
		// long epochs: many (length, percentage) pairs whose threshold falls exactly on a block
		c["epoch_len"] = []int64{20, 25, 40, 50, 100, 100, 150, 200, 300, 400, 1000}[r.Intn(11)]
	}
	c["pct"] = int64([]int{0, 1, 10, 33, 50, 51, 66, 80, 90, 99}[r.Intn(10)])
	if r.Bool(50) {
		c["pct"] = int64(r.Intn(100))
	}
	c["w_thr"] = int64(r.Range(0, 12))
	c["start"] = int64(r.Intn(12))
	if r.Bool(15) {
		c["start"] = int64(r.Range(12, 1000))
	}
	c["interval_ms"] = int64([]int{0, 0, 500, 3000}[r.Intn(4)]) // 0 = adaptive polling
	c["head0"] = int64(r.Range(0, int(c["start"])+3))
	c["ops"] = int64(r.Range(20, 120))
	if tier == "thorough" {
		c["ops"] = int64(r.Range(30, 300))
	}
	c["w_mine"] = int64(r.Range(10, 30))
	c["w_shrink"] = int64(r.Range(0, 4))
	c["w_rel"] = 40
	c["w_err"] = int64(r.Range(0, 8))
	c["w_time"] = int64(r.Range(10, 30))
	c["big_gaps"] = int64(r.Intn(2))
	// a second subscriber that stays busy with each notification until the scheduler lets it read again
	c["slow_sub"] = int64(r.Intn(2))
	c["w_sub"] = int64(r.Range(1, 12))
	return c
}

func RunC18(prop string, tr *Trace, sc *Script, rec *Recorder, scratch string) (viol *Violation) {
	perr := InBubble(workerT, func() {
		defer func() {
			if r := recover(); r != nil {
				viol = &Violation{Oracle: "harness", Detail: fmt.Sprintf("scheduler panic: %v", r)}
			}
		}()
		viol = runC18(tr, sc, rec)
	})
	if perr != nil && viol == nil {
		viol = &Violation{Oracle: "harness", Detail: fmt.Sprintf("bubble panic: %v", perr)}
	}
	return viol
}

type c18Notif struct {
	Epoch uint64
	Block uint64 // the block event being processed when the notification arrived
}

// c18Reference computes, from the block events the epoch notifier was fed, the
// notifications the property demands: one per epoch in which a block at or beyond the
// percentage is seen, at the first such block, for increasing block numbers only.
func c18Reference(S, N, P uint64, blocks []uint64) []c18Notif {
	out := []c18Notif{}
	notified := map[uint64]bool{}
	maxSeen := uint64(0)
	seenAny := false
	for _, b := range blocks {
		if seenAny && b <= maxSeen {
			continue // not part of the increasing sequence
		}
		seenAny = true
		maxSeen = b
		if b < S {
			continue
		}
		e := 1 + (b-S)/N
		elapsed := (b - S) % N
		// at or beyond P percent of the epoch; a percentage no block of the epoch can reach means its last block
		qualifies := elapsed*100 >= P*N || elapsed == N-1
		if qualifies && !notified[e] {
			notified[e] = true
			out = append(out, c18Notif{Epoch: e, Block: b})
		}
	}
	return out
}

func runC18(tr *Trace, sc *Script, rec *Recorder) *Violation {
	cfg := tr.Cfg
	w := NewWorld(rec)
	chain := NewChain(1, tr.Seed)
	for i := int64(0); i < cfg["head0"]; i++ {
		chain.Mine(uint64(i), nil)
	}
	ctx, cancel := context.WithCancel(context.Background())
	defer func() {
		w.Kill()
		cancel()
		w.Quiesce()
	}()
	logger := log.WithFields("module", "c18")
	bn, err := aggsender.NewBlockNotifierPolling(&FakeClient{W: w, C: chain, Label: "bn", Epoch: w.Epoch},
		aggsender.ConfigBlockNotifierPolling{BlockFinalityType: aggkittypes.LatestBlock, CheckNewBlockInterval: time.Duration(cfg["interval_ms"]) * time.Millisecond}, logger, nil)
	if err != nil {
		return &Violation{Oracle: "harness", Detail: err.Error()}
	}
	S, N, P := uint64(cfg["start"]), uint64(cfg["epoch_len"]), uint64(cfg["pct"])
	en, err := aggsender.NewEpochNotifierPerBlock(bn, logger, aggsender.ConfigEpochNotifierPerBlock{StartingEpochBlock: S, NumBlockPerEpoch: uint(N), EpochNotificationPercentage: uint(P)}, nil)
	if err != nil {
		return &Violation{Oracle: "harness", Detail: err.Error()}
	}
	var mu sync.Mutex
	var blocksFed []uint64
	var got []c18Notif
	blkCh := bn.Subscribe("recorder")
	epCh := en.Subscribe("recorder")
	go func() {
		for {
			select {
			case <-ctx.Done():
				return
			case b := <-blkCh:
				mu.Lock()
				blocksFed = append(blocksFed, b.BlockNumber)
				mu.Unlock()
			}
		}
	}()
	go func() {
		for {
			select {
			case <-ctx.Done():
				return
			case e := <-epCh:
				// the block at which the notifier fired, from the event's own extra info
				// (pending blocks until the epoch ends): independent of goroutine timing
				blk := uint64(0)
				if x, ok := e.ExtraInfo.(*aggsender.ExtraInfoEventEpoch); ok {
					blk = S + e.Epoch*N - uint64(x.PendingBlocks)
				}
				mu.Lock()
				got = append(got, c18Notif{Epoch: e.Epoch, Block: blk})
				mu.Unlock()
			}
		}
	}()
	var gotSlow []c18Notif
	if cfg["slow_sub"] == 1 {
		slowCh := en.Subscribe("slow")
		ep := w.Epoch
		go func() {
			for {
				select {
				case <-ctx.Done():
					return
				case e := <-slowCh:
					blk := uint64(0)
					if x, ok := e.ExtraInfo.(*aggsender.ExtraInfoEventEpoch); ok {
						blk = S + e.Epoch*N - uint64(x.PendingBlocks)
					}
					mu.Lock()
					gotSlow = append(gotSlow, c18Notif{Epoch: e.Epoch, Block: blk})
					mu.Unlock()
					// busy with this notification: it does not read the next one before the scheduler says so
					if w.park(ctx, "sub", "Busy", fmt.Sprintf("epoch %d", e.Epoch), ep) == replyDead {
						return
					}
				}
			}
		}()
	}
	w.EndSetup()
	go en.Start(ctx)
	w.Quiesce()
	go bn.Start(ctx)
	w.Quiesce()
	_ = aggsendertypes.EpochEvent{}

	compare := func(ctx string, final bool) *Violation {
		mu.Lock()
		defer mu.Unlock()
		want := c18Reference(S, N, P, blocksFed)
		// every notification received must be demanded, in order; at the end none may be missing
		for i, g := range got {
			if i >= len(want) {
				return &Violation{Oracle: "extra", Sig: "c18/extra-notification", Detail: fmt.Sprintf("%s: notification for epoch %d (at block %d) but only %d notifications are due for the blocks seen %v (start=%d len=%d pct=%d)", ctx, g.Epoch, g.Block, len(want), blocksFed, S, N, P)}
			}
			if g.Epoch != want[i].Epoch {
				return &Violation{Oracle: "wrong-epoch", Sig: "c18/wrong-epoch", Detail: fmt.Sprintf("%s: notification #%d is for epoch %d, expected epoch %d at block %d; blocks seen %v (start=%d len=%d pct=%d)", ctx, i, g.Epoch, want[i].Epoch, want[i].Block, blocksFed, S, N, P)}
			}
			if g.Block != want[i].Block {
				return &Violation{Oracle: "wrong-block", Sig: "c18/not-first-block", Detail: fmt.Sprintf("%s: epoch %d announced at block %d, the first block at or beyond the threshold was %d; blocks seen %v (start=%d len=%d pct=%d)", ctx, g.Epoch, g.Block, want[i].Block, blocksFed, S, N, P)}
			}
			if i > 0 && g.Epoch <= got[i-1].Epoch {
				return &Violation{Oracle: "order", Sig: "c18/epoch-order", Detail: fmt.Sprintf("%s: epoch numbers do not strictly increase: %v", ctx, got)}
			}
		}
		// the busy subscriber: what it has read so far is the beginning of what is due, in order; at the end, all of it
		for i, g := range gotSlow {
			if i >= len(want) || g != want[i] {
				return &Violation{Oracle: "slow-subscriber", Sig: "c18/slow-subscriber-wrong", Detail: fmt.Sprintf("%s: the busy subscriber's notification #%d is epoch %d at block %d; due are %v (start=%d len=%d pct=%d)", ctx, i, g.Epoch, g.Block, want, S, N, P)}
			}
		}
		if final && cfg["slow_sub"] == 1 && len(gotSlow) < len(want) {
			return &Violation{Oracle: "slow-subscriber", Sig: "c18/slow-subscriber-missed", Detail: fmt.Sprintf("%s: the busy subscriber got %d notifications %v, %d are due %v: a subscriber that reads late still gets each epoch once (start=%d len=%d pct=%d)", ctx, len(gotSlow), gotSlow, len(want), want, S, N, P)}
		}
		if len(got) < len(want) {
			m := want[len(got)]
			sig := "c18/missing-notification"
			if m.Block == S {
				sig = "c18/missing-notification-at-starting-block"
			}
			return &Violation{Oracle: "missing", Sig: sig, Detail: fmt.Sprintf("%s: no notification for epoch %d although block %d (at or beyond %d%% of the epoch) was seen; blocks seen %v, notifications %v (start=%d len=%d pct=%d)", ctx, m.Epoch, m.Block, P, blocksFed, got, S, N, P)}
		}
		return nil
	}

	gen := func(r *Rand) (Op, bool) {
		labels := w.ParkedLabels()
		wts := []int{int(cfg["w_mine"]), int(cfg["w_shrink"]), int(cfg["w_rel"]), int(cfg["w_err"]), int(cfg["w_time"]), int(cfg["w_thr"]), 0}
		if w.FirstParked("bn") == nil {
			wts[2], wts[3] = 0, 0
			wts[4] += 30
		}
		if w.FirstParked("sub") != nil {
			wts[6] = int(cfg["w_sub"])
		}
		_ = labels
		if chain.HeadNum() < 2 {
			wts[1] = 0
		}
		switch r.Pick(wts) {
		case 0:
			n := 1
			if r.Bool(40) {
				n = r.Range(2, 5)
			}
			if cfg["big_gaps"] == 1 && r.Bool(20) {
				n = r.Range(int(N), int(3*N)+2)
			}
			return Op{K: "mine", A: []int64{int64(n)}}, true
		case 1:
			return Op{K: "shrink", A: []int64{int64(r.Range(1, 3))}}, true
		case 2:
			return Op{K: "rel", S: "bn", A: []int64{0}}, true
		case 3:
			return Op{K: "rel", S: "bn", A: []int64{1}}, true
		case 6:
			return Op{K: "rel", S: "sub", A: []int64{0}}, true
		case 5:
			// boundary bias: put the head on, just before or just after the first block at or beyond the percentage
			return Op{K: "minethr", A: []int64{int64(r.Intn(3)) - 1, int64(r.Intn(2))}}, true
		default:
			ms := []int64{1000, 2000, 500, 12000, 60000}[r.Intn(5)]
			return Op{K: "time", A: []int64{ms}}, true
		}
	}
	for {
		op, ok := sc.Next(gen)
		if !ok {
			break
		}
		rec.Stats.Inc("steps")
		switch op.K {
		case "mine":
			for i := int64(0); i < op.Arg(0); i++ {
				chain.Mine(uint64(i), nil)
			}
			rec.Step(fmt.Sprintf("M%d", op.Arg(0)))
		case "minethr":
			thr := (P*N + 99) / 100 // first elapsed count with elapsed*100 >= P*N
			if thr > N-1 {
				thr = N - 1
			}
			head := chain.HeadNum()
			e := uint64(0)
			if head >= S {
				e = (head - S) / N
			}
			e += uint64(op.Arg(1))
			target := int64(S+e*N+thr) + op.Arg(0)
			for k := 0; target <= int64(head) && k < 3; k++ {
				target += int64(N)
			}
			n := target - int64(head)
			if n < 1 || n > 2500 {
				continue
			}
			for i := int64(0); i < n; i++ {
				chain.Mine(uint64(i), nil)
			}
			rec.Stats.Inc("heads_put_at_threshold")
			rec.Step(fmt.Sprintf("MT%d", op.Arg(0)))
		case "shrink":
			keep := int64(chain.HeadNum()) - op.Arg(0)
			if keep < 1 {
				keep = 1 // the genesis block is never announced as a new head
			}
			chain.Rewind(uint64(keep))
			rec.Stats.Inc("head_decreased")
			rec.Step("K")
		case "rel":
			p := w.FirstParked(op.S)
			if p == nil {
				continue
			}
			if op.Arg(0) != 0 && op.S != "sub" {
				rec.Stats.Inc("rpc_fault_1_HeaderByNumber")
			}
			rec.Step(fmt.Sprintf("r%d", op.Arg(0)))
			if op.S == "sub" {
				mu.Lock()
				if len(got)-len(gotSlow) >= 2 {
					rec.Stats.Inc("busy_subscriber_two_or_more_behind")
				}
				mu.Unlock()
				w.Release(p, replyOK)
				break
			}
			w.Release(p, int(op.Arg(0)))
		case "time":
			w.Advance(time.Duration(op.Arg(0)) * time.Millisecond)
			rec.Step("T")
		}
		if v := compare("after "+op.String(), false); v != nil {
			return v
		}
		mu.Lock()
		rec.Event("after %s: parked=[%s] head=%d fed=%v got=%v", op, w.ParkedDigest(), chain.HeadNum(), blocksFed, got)
		rec.State(fmt.Sprintf("%d:%d:%d", len(blocksFed), len(got), len(w.Parked())))
		mu.Unlock()
	}
	// drain: let the poller observe the final head
	for i := 0; i < 40; i++ {
		if p := w.FirstParked("bn"); p != nil {
			w.Release(p, replyOK)
		} else {
			w.Advance(time.Second)
		}
	}
	// ... and the busy subscriber read everything that is waiting for it
	for i := 0; i < 100000; i++ {
		p := w.FirstParked("sub")
		if p == nil {
			break
		}
		w.Release(p, replyOK)
	}
	if v := compare("end of run", true); v != nil {
		return v
	}
	mu.Lock()
	defer mu.Unlock()
	rec.Stats.Add("notifications", int64(len(got)))
	rec.Stats.Add("block_events", int64(len(blocksFed)))
	// skipped epochs / threshold jumps reached?
	for i := 1; i < len(got); i++ {
		if got[i].Epoch > got[i-1].Epoch+1 {
			rec.Stats.Inc("epochs_skipped_entirely")
		}
	}
	return nil
}

func init() {
	register(&PropSpec{ID: "C18", Engine: "syncsim", Config: C18Config, Run: RunC18,
		OpLimit:    func(cfg map[string]int64) int { return int(cfg["ops"]) },
		Nontrivial: func(s Stats) bool { return s["notifications"] >= 2 }})
}

package sim

// agglayermodel: the Agglayer as a small executable model behind the REAL
// AgglayerGRPCClient (in-memory gRPC service clients, no socket): what the
// model receives is the exact protobuf the node would send.

import (
	"context"
	"encoding/binary"
	"errors"
	"fmt"
	"math/big"

	v1nodetypes "buf.build/gen/go/agglayer/agglayer/protocolbuffers/go/agglayer/node/types/v1"
	v1 "buf.build/gen/go/agglayer/agglayer/protocolbuffers/go/agglayer/node/v1"
	v1types "buf.build/gen/go/agglayer/interop/protocolbuffers/go/agglayer/interop/types/v1"
	"github.com/ethereum/go-ethereum/common"
	"google.golang.org/grpc"
	"google.golang.org/grpc/codes"
	"google.golang.org/grpc/status"
)

const (
	agPending   = 1
	agProven    = 2
	agCandidate = 3
	agInError   = 4
	agSettled   = 5
)

const (
	replyAcceptedButLost = 10 // the Agglayer accepted the submission but the reply never arrived
)

// AgCert is a certificate as the Agglayer model knows it.
type AgCert struct {
	ID       common.Hash
	Wire     *v1nodetypes.Certificate
	Height   uint64
	PrevLER  common.Hash
	NewLER   common.Hash
	Metadata common.Hash
	Status   int
	From, To uint64 // decoded from the metadata
	Seq      int
}

// Submission is one SubmitCertificate attempt as seen by the model.
type Submission struct {
	Wire      *v1nodetypes.Certificate
	ID        common.Hash
	Accepted  bool
	Reject    string
	Height    uint64
	From, To  uint64
	CreatedAt uint32
	// state of the model at the time of the attempt
	ExpectedHeight  uint64
	ExpectedPrevLER common.Hash
	ExpectedFrom    uint64
	OpenCert        *AgCert
	ReplacesInError *AgCert
	LostReply       bool
}

type AgglayerModel struct {
	// NoPrevLER: headers carry no prev_local_exit_root (optional field of the API)
	NoPrevLER bool
	w         *World
	epoch     int
	NetworkID uint32
	StartLER  common.Hash
	Certs     map[common.Hash]*AgCert
	Settled   []*AgCert // by height
	Latest    *AgCert   // latest non-settled certificate (open or in error) above the settled chain
	seq       int
	Subs      []*Submission
	OnSubmit  func(s *Submission)
}

func NewAgglayerModel(w *World, networkID uint32, startLER common.Hash) *AgglayerModel {
	return &AgglayerModel{w: w, epoch: w.Epoch, NetworkID: networkID, StartLER: startLER, Certs: map[common.Hash]*AgCert{}}
}

func fb32(b *v1types.FixedBytes32) common.Hash {
	if b == nil {
		return common.Hash{}
	}
	return common.BytesToHash(b.Value)
}

// refExitHashProto: the exit leaf hash as the Agglayer computes it, from the wire message.
func refExitHashProto(be *v1types.BridgeExit) common.Hash {
	var lt byte
	switch be.LeafType {
	case v1types.LeafType_LEAF_TYPE_TRANSFER:
		lt = 0
	case v1types.LeafType_LEAF_TYPE_MESSAGE:
		lt = 1
	default:
		lt = 0xff
	}
	var on, dn [4]byte
	var oa, da []byte
	if be.TokenInfo != nil {
		binary.BigEndian.PutUint32(on[:], be.TokenInfo.OriginNetwork)
		if be.TokenInfo.OriginTokenAddress != nil {
			oa = be.TokenInfo.OriginTokenAddress.Value
		}
	}
	binary.BigEndian.PutUint32(dn[:], be.DestNetwork)
	if be.DestAddress != nil {
		da = be.DestAddress.Value
	}
	amount := make([]byte, 32)
	if be.Amount != nil {
		copy(amount[32-len(be.Amount.Value):], be.Amount.Value)
	}
	meta := keccakBytes()
	if be.Metadata != nil {
		meta = common.BytesToHash(be.Metadata.Value)
	}
	return keccakBytes([]byte{lt}, on[:], pad(oa, 20), dn[:], pad(da, 20), amount, meta[:])
}

func pad(b []byte, n int) []byte {
	if len(b) >= n {
		return b[len(b)-n:]
	}
	o := make([]byte, n)
	copy(o[n-len(b):], b)
	return o
}

// leBytes: 32-byte little-endian encoding (the Agglayer's U256::to_le_bytes).
func leBytes(b *big.Int) []byte {
	be := b.Bytes()
	out := make([]byte, 32)
	for i := 0; i < len(be) && i < 32; i++ {
		out[i] = be[len(be)-1-i]
	}
	return out
}

// wireGlobalIndex returns the global index carried by an imported exit of the wire message.
func wireGlobalIndex(ibe *v1types.ImportedBridgeExit) *big.Int {
	if ibe.GlobalIndex == nil {
		return big.NewInt(0)
	}
	return new(big.Int).SetBytes(ibe.GlobalIndex.Value)
}

func merkleProofHashProto(p *v1types.MerkleProof) common.Hash {
	var all []byte
	for _, s := range p.Siblings {
		all = append(all, pad(s.Value, 32)...)
	}
	return keccakBytes(pad(p.Root.Value, 32), all)
}

func l1LeafHashProto(l *v1types.L1InfoTreeLeafWithContext) common.Hash {
	var t [8]byte
	binary.BigEndian.PutUint64(t[:], l.Inner.Timestamp)
	return keccakBytes(pad(l.Inner.GlobalExitRoot.Value, 32), pad(l.Inner.BlockHash.Value, 32), t[:])
}

// wireCertID recomputes the certificate identity from the wire message with the
// documented formula (independent of agglayer/types.Certificate.Hash).
func wireCertID(c *v1nodetypes.Certificate) common.Hash {
	var exitHashes, impHashes [][]byte
	for _, be := range c.BridgeExits {
		h := refExitHashProto(be)
		exitHashes = append(exitHashes, h[:])
	}
	for _, ibe := range c.ImportedBridgeExits {
		beh := refExitHashProto(ibe.BridgeExit)
		var claimHash common.Hash
		switch cl := ibe.Claim.(type) {
		case *v1types.ImportedBridgeExit_Mainnet:
			a, b, l := merkleProofHashProto(cl.Mainnet.ProofLeafMer), merkleProofHashProto(cl.Mainnet.ProofGerL1Root), l1LeafHashProto(cl.Mainnet.L1Leaf)
			claimHash = keccakBytes(a[:], b[:], l[:])
		case *v1types.ImportedBridgeExit_Rollup:
			a, b, g, l := merkleProofHashProto(cl.Rollup.ProofLeafLer), merkleProofHashProto(cl.Rollup.ProofLerRer), merkleProofHashProto(cl.Rollup.ProofGerL1Root), l1LeafHashProto(cl.Rollup.L1Leaf)
			claimHash = keccakBytes(a[:], b[:], g[:], l[:])
		}
		gih := keccakBytes(leBytes(wireGlobalIndex(ibe)))
		h := keccakBytes(beh[:], claimHash[:], gih[:])
		impHashes = append(impHashes, h[:])
	}
	var nid [4]byte
	binary.BigEndian.PutUint32(nid[:], c.NetworkId)
	var hb [8]byte
	binary.BigEndian.PutUint64(hb[:], c.Height)
	e, i := keccakBytes(exitHashes...), keccakBytes(impHashes...)
	return keccakBytes(nid[:], hb[:], pad(c.PrevLocalExitRoot.Value, 32), pad(c.NewLocalExitRoot.Value, 32), e[:], i[:])
}

func decodeMeta(m common.Hash) (from, to uint64, createdAt uint32, certType uint8, version uint8) {
	b := m.Bytes()
	version = b[0]
	if version == 0 {
		return 0, m.Big().Uint64(), 0, 0, 0
	}
	from = binary.BigEndian.Uint64(b[1:9])
	off := binary.BigEndian.Uint32(b[9:13])
	createdAt = binary.BigEndian.Uint32(b[13:17])
	if version >= 2 {
		certType = b[17]
	}
	return from, from + uint64(off), createdAt, certType, version
}

func (m *AgglayerModel) settledTip() *AgCert {
	if len(m.Settled) == 0 {
		return nil
	}
	return m.Settled[len(m.Settled)-1]
}

func (m *AgglayerModel) open() *AgCert {
	if m.Latest != nil && m.Latest.Status != agInError && m.Latest.Status != agSettled {
		return m.Latest
	}
	return nil
}

func (m *AgglayerModel) expected() (height uint64, prevLER common.Hash, from uint64) {
	if t := m.settledTip(); t != nil {
		return t.Height + 1, t.NewLER, t.To + 1
	}
	return 0, m.StartLER, 0
}

// ---- gRPC service clients (in memory) ----

func (m *AgglayerModel) SubmitCertificate(ctx context.Context, in *v1.SubmitCertificateRequest, opts ...grpc.CallOption) (*v1.SubmitCertificateResponse, error) {
	mode := m.w.park(ctx, "ag", "SubmitCertificate", fmt.Sprintf("h=%d", in.Certificate.Height), m.epoch)
	switch mode {
	case replyDead:
		if ctx.Err() != nil {
			return nil, status.FromContextError(ctx.Err()).Err()
		}
		return nil, status.Error(codes.Unavailable, "node stopped")
	case replyTransient, replyNotFound:
		return nil, status.Error(codes.Unavailable, "injected transient agglayer error")
	}
	c := in.Certificate
	// like the real Agglayer the identity also covers the metadata (two certificates that only differ in
	// their block range are different certificates)
	idCore := wireCertID(c)
	s := &Submission{Wire: c, ID: keccakBytes(idCore[:], pad(c.Metadata.GetValue(), 32)), Height: c.Height}
	s.From, s.To, s.CreatedAt, _, _ = decodeMeta(fb32(c.Metadata))
	s.ExpectedHeight, s.ExpectedPrevLER, s.ExpectedFrom = m.expected()
	s.OpenCert = m.open()
	if m.Latest != nil && m.Latest.Status == agInError {
		s.ReplacesInError = m.Latest
	}
	s.LostReply = mode == replyAcceptedButLost
	switch {
	case c.NetworkId != m.NetworkID:
		s.Reject = "unknown network"
	case s.OpenCert != nil:
		s.Reject = fmt.Sprintf("certificate %s at height %d is still undecided", s.OpenCert.ID.Hex()[:10], s.OpenCert.Height)
	case c.Height != s.ExpectedHeight:
		s.Reject = fmt.Sprintf("height %d, expected %d", c.Height, s.ExpectedHeight)
	case fb32(c.PrevLocalExitRoot) != s.ExpectedPrevLER:
		s.Reject = "previous local exit root does not match the settled state"
	default:
		s.Accepted = true
	}
	m.Subs = append(m.Subs, s)
	if s.Accepted {
		m.seq++
		ac := &AgCert{ID: s.ID, Wire: c, Height: c.Height, PrevLER: fb32(c.PrevLocalExitRoot), NewLER: fb32(c.NewLocalExitRoot),
			Metadata: fb32(c.Metadata), Status: agPending, From: s.From, To: s.To, Seq: m.seq}
		m.Certs[ac.ID] = ac
		m.Latest = ac
	}
	if m.OnSubmit != nil {
		m.OnSubmit(s)
	}
	if !s.Accepted {
		return nil, status.Error(codes.InvalidArgument, "certificate rejected: "+s.Reject)
	}
	if s.LostReply {
		return nil, status.Error(codes.DeadlineExceeded, "injected: reply lost after the certificate was accepted")
	}
	return &v1.SubmitCertificateResponse{CertificateId: &v1nodetypes.CertificateId{Value: &v1types.FixedBytes32{Value: s.ID.Bytes()}}}, nil
}

func (m *AgglayerModel) header(c *AgCert) *v1nodetypes.CertificateHeader {
	if c == nil {
		return nil
	}
	h := &v1nodetypes.CertificateHeader{
		NetworkId: m.NetworkID, Height: c.Height,
		CertificateId:     &v1nodetypes.CertificateId{Value: &v1types.FixedBytes32{Value: c.ID.Bytes()}},
		PrevLocalExitRoot: &v1types.FixedBytes32{Value: c.PrevLER.Bytes()},
		NewLocalExitRoot:  &v1types.FixedBytes32{Value: c.NewLER.Bytes()},
		Metadata:          &v1types.FixedBytes32{Value: c.Metadata.Bytes()},
		Status:            v1nodetypes.CertificateStatus(c.Status),
	}
	if m.NoPrevLER {
		// older Agglayers do not report the previous local exit root in a certificate header
		h.PrevLocalExitRoot = nil
		if c.Seq%2 == 1 {
			// the other wire shape of "not reported": the optional message is present and its bytes are empty
			h.PrevLocalExitRoot = &v1types.FixedBytes32{}
		}
	}
	if c.Status == agInError {
		h.Error = &v1nodetypes.CertificateStatusError{Message: []byte("model: certificate in error")}
	}
	if c.Status == agSettled {
		e, i := uint64(c.Seq), uint64(0)
		h.EpochNumber, h.CertificateIndex = &e, &i
		h.SettlementTxHash = &v1types.FixedBytes32{Value: keccakBytes(c.ID[:]).Bytes()}
	}
	return h
}

func (m *AgglayerModel) GetCertificateHeader(ctx context.Context, in *v1.GetCertificateHeaderRequest, opts ...grpc.CallOption) (*v1.GetCertificateHeaderResponse, error) {
	id := common.BytesToHash(in.CertificateId.Value.Value)
	mode := m.w.park(ctx, "ag", "GetCertificateHeader", id.Hex()[:10], m.epoch)
	switch mode {
	case replyDead:
		return nil, status.Error(codes.Unavailable, "node stopped")
	case replyTransient, replyNotFound, replyAcceptedButLost:
		return nil, status.Error(codes.Unavailable, "injected transient agglayer error")
	}
	c, ok := m.Certs[id]
	if !ok {
		return nil, status.Error(codes.NotFound, "certificate not found")
	}
	return &v1.GetCertificateHeaderResponse{CertificateHeader: m.header(c)}, nil
}

func (m *AgglayerModel) GetLatestCertificateHeader(ctx context.Context, in *v1.GetLatestCertificateHeaderRequest, opts ...grpc.CallOption) (*v1.GetLatestCertificateHeaderResponse, error) {
	kind := "settled"
	if in.Type == v1.LatestCertificateRequestType_LATEST_CERTIFICATE_REQUEST_TYPE_PENDING {
		kind = "pending"
	}
	mode := m.w.park(ctx, "ag", "GetLatestCertificateHeader", kind, m.epoch)
	switch mode {
	case replyDead:
		return nil, status.Error(codes.Unavailable, "node stopped")
	case replyTransient, replyNotFound, replyAcceptedButLost:
		return nil, status.Error(codes.Unavailable, "injected transient agglayer error")
	}
	if kind == "settled" {
		return &v1.GetLatestCertificateHeaderResponse{CertificateHeader: m.header(m.settledTip())}, nil
	}
	var p *AgCert
	if m.Latest != nil && m.Latest.Status != agSettled {
		p = m.Latest
	}
	return &v1.GetLatestCertificateHeaderResponse{CertificateHeader: m.header(p)}, nil
}

func (m *AgglayerModel) GetEpochConfiguration(ctx context.Context, in *v1.GetEpochConfigurationRequest, opts ...grpc.CallOption) (*v1.GetEpochConfigurationResponse, error) {
	return &v1.GetEpochConfigurationResponse{EpochConfiguration: &v1nodetypes.EpochConfiguration{GenesisBlock: 1, EpochDuration: 10}}, nil
}

// Move advances the open certificate one step (or puts it in error). Returns what happened.
func (m *AgglayerModel) Move(toError bool) string {
	c := m.open()
	if c == nil {
		return ""
	}
	if toError {
		c.Status = agInError
		return "inerror"
	}
	switch c.Status {
	case agPending:
		c.Status = agProven
	case agProven:
		c.Status = agCandidate
	case agCandidate:
		c.Status = agSettled
		m.Settled = append(m.Settled, c)
		m.Latest = nil
		return "settled"
	}
	return "step"
}

var errModel = errors.New("agglayer model")

package sim

// The aggkit-prover model behind the REAL aggchainproofclient.AggchainProofClient (request and
// response conversion run real code), the L2 GER reader stub and the optimistic-mode stubs of the
// aggchain-prover (FEP) flow of sendersim. Every prover call parks in the scheduler like any other
// outgoing call; the scheduler decides between: proof for the whole range, proof for a shorter
// range, "no proof built yet", transient failure, time-out.

import (
	"context"
	"encoding/binary"
	"fmt"
	"math/big"

	v1types "buf.build/gen/go/agglayer/interop/protocolbuffers/go/agglayer/interop/types/v1"
	proverv1 "buf.build/gen/go/agglayer/provers/protocolbuffers/go/aggkit/prover/v1"
	"github.com/agglayer/aggkit/aggoracle/chaingerreader"
	"github.com/agglayer/aggkit/aggsender/optimistic"
	"github.com/agglayer/aggkit/aggsender/optimistic/optimistichash"
	aggsendertypes "github.com/agglayer/aggkit/aggsender/types"
	"github.com/agglayer/aggkit/bridgesync"
	"github.com/agglayer/aggkit/log"
	"github.com/agglayer/go_signer/signer"
	"github.com/ethereum/go-ethereum/common"
	"github.com/ethereum/go-ethereum/crypto"
	"google.golang.org/grpc"
	"google.golang.org/grpc/codes"
	"google.golang.org/grpc/status"
)

type proverResp struct {
	LastProven, RequestedEnd, EndBlock uint64
	Params                             common.Hash
	Proof, Vkey, Custom                []byte
	Version                            string
	Context                            map[string][]byte
	Optimistic                         bool
}

type proverModel struct {
	s     *senderWorld
	w     *World
	epoch int
	Resps []*proverResp
	n     uint64
}

func (p *proverModel) answer(ctx context.Context, method string, in *proverv1.GenerateAggchainProofRequest, optimistic bool) (*proverResp, error) {
	mode := p.w.park(ctx, "pv", method, fmt.Sprintf("%d..%d", in.LastProvenBlock, in.RequestedEndBlock), p.epoch)
	switch mode {
	case replyDead:
		return nil, status.Error(codes.Unavailable, "node stopped")
	case replyTransient:
		return nil, status.Error(codes.Internal, "injected transient prover error")
	case replyDeadline:
		return nil, status.Error(codes.DeadlineExceeded, "injected prover time-out")
	case replyNotFound:
		return nil, status.Error(codes.Unavailable, "Proposer service has not built any proof yet")
	}
	p.s.onProverRequest(in, optimistic)
	end := in.RequestedEndBlock
	if mode == replyStale && end > in.LastProvenBlock+1 {
		// the prover proved a shorter range than asked
		end = in.LastProvenBlock + 1 + (end-in.LastProvenBlock-1)/2
		p.s.rec.Stats.Inc("prover_shortened_range")
	} else if span := end - in.LastProvenBlock; !optimistic && span > 1 && (in.LastProvenBlock+in.RequestedEndBlock+p.n)%3 == 0 {
		// ... and does so on its own for a third of the multi-block requests, cutting anywhere inside the range (what
		// lies in the cut tail - bridges, claims, both or nothing - is the chain's business). Derived from the request
		// and the request counter: no draw from the run's PRNG.
		end = in.LastProvenBlock + 1 + (in.RequestedEndBlock*7+p.n*3)%(span-1)
		p.s.rec.Stats.Inc("prover_shortened_range")
		p.s.rec.Stats.Inc("prover_shortened_range_on_its_own")
	}
	p.n++
	var sd [24]byte
	binary.BigEndian.PutUint64(sd[:8], in.LastProvenBlock)
	binary.BigEndian.PutUint64(sd[8:16], end)
	binary.BigEndian.PutUint64(sd[16:], p.n)
	h := keccakBytes(sd[:])
	r := &proverResp{LastProven: in.LastProvenBlock, RequestedEnd: in.RequestedEndBlock, EndBlock: end, Params: keccakBytes(h[:], []byte("params")),
		Proof: append(h.Bytes(), keccakBytes(h[:], []byte("p")).Bytes()...), Vkey: keccakBytes(h[:], []byte("v")).Bytes(), Version: fmt.Sprintf("v%d", p.n%3),
		Custom: keccakBytes(h[:], []byte("c")).Bytes()[:int(1+h[0]%31)], Context: map[string][]byte{"k": h[:4], "n": {byte(p.n)}}, Optimistic: optimistic}
	if h[1]%6 == 0 {
		// a prover without a proving back end (mock prover): zero-length proof bytes
		r.Proof = nil
		p.s.rec.Stats.Inc("prover_empty_proof_bytes")
	}
	p.Resps = append(p.Resps, r)
	p.s.rec.Stats.Inc("prover_proofs")
	return r, nil
}

func (r *proverResp) proto() *v1types.AggchainProof {
	return &v1types.AggchainProof{AggchainParams: &v1types.FixedBytes32{Value: r.Params.Bytes()}, Context: r.Context,
		Proof: &v1types.AggchainProof_Sp1Stark{Sp1Stark: &v1types.SP1StarkProof{Version: r.Version, Proof: r.Proof, Vkey: r.Vkey}}}
}

func (p *proverModel) ler(end uint64) *v1types.FixedBytes32 {
	n := 0
	for _, b := range p.s.l2m.Blocks {
		if b.Num <= end {
			for _, e := range b.Events {
				if e.(bridgesync.Event).Bridge != nil {
					n++
				}
			}
		}
	}
	root := RefAppendRoot(nil)
	if n > 0 && n <= len(p.s.l2m.Tree.Roots) {
		root = p.s.l2m.Tree.Roots[n-1]
	}
	return &v1types.FixedBytes32{Value: root.Bytes()}
}

func (p *proverModel) GenerateAggchainProof(ctx context.Context, in *proverv1.GenerateAggchainProofRequest, opts ...grpc.CallOption) (*proverv1.GenerateAggchainProofResponse, error) {
	r, err := p.answer(ctx, "GenerateAggchainProof", in, false)
	if err != nil {
		return nil, err
	}
	return &proverv1.GenerateAggchainProofResponse{AggchainProof: r.proto(), LastProvenBlock: r.LastProven, EndBlock: r.EndBlock,
		LocalExitRootHash: p.ler(r.EndBlock), CustomChainData: r.Custom}, nil
}

func (p *proverModel) GenerateOptimisticAggchainProof(ctx context.Context, in *proverv1.GenerateOptimisticAggchainProofRequest, opts ...grpc.CallOption) (*proverv1.GenerateOptimisticAggchainProofResponse, error) {
	r, err := p.answer(ctx, "GenerateOptimisticAggchainProof", in.AggchainProofRequest, true)
	if err != nil {
		return nil, err
	}
	p.s.checkOptimisticSignature(in)
	// the optimistic answer has no range of its own: the client reports the requested one
	r.EndBlock = r.RequestedEnd
	return &proverv1.GenerateOptimisticAggchainProofResponse{AggchainProof: r.proto(), LocalExitRootHash: p.ler(r.EndBlock), CustomChainData: r.Custom}, nil
}

// ---------------------------------------------------------------- oracles at the prover request

// onProverRequest judges what the node asks the prover to prove (C19 global indexes, C09 L1 info
// proofs, C17 the cut of the requested range).
func (s *senderWorld) onProverRequest(in *proverv1.GenerateAggchainProofRequest, optimistic bool) {
	s.rec.Stats.Inc("prover_requests")
	from, to := in.LastProvenBlock+1, in.RequestedEndBlock
	if to < from {
		s.fail("cut", "c17/prover-range", "prover asked for blocks %d..%d", from, to)
		return
	}
	_, cs := s.eventsIn(from, to)
	if len(in.ImportedBridgeExits) != len(cs) {
		s.fail("content", "c03/prover-imported-count", "the prover request for blocks %d..%d carries %d imported exits; those blocks have %d claims", from, to, len(in.ImportedBridgeExits), len(cs))
		return
	}
	for i, ibe := range in.ImportedBridgeExits {
		cl := cs[i]
		gi := new(big.Int).SetBytes(ibe.GlobalIndex.GetValue())
		if gi.Cmp(canonGI(cl.GlobalIndex)) != 0 {
			s.fail("global-index", "c19/prover-global-index", "imported exit %d of the prover request carries global index %s, the claim event has %s", i, gi, cl.GlobalIndex)
			return
		}
		lt := uint8(0)
		if cl.IsMessage {
			lt = 1
		}
		want := refBridgeLeaf(lt, cl.OriginNetwork, cl.OriginAddress, cl.DestinationNetwork, cl.DestinationAddress, cl.Amount, cl.Metadata)
		if fb32(ibe.BridgeExitHash) != want || ibe.BlockNumber != cl.BlockNum {
			s.fail("content", "c03/prover-imported-exit", "imported exit %d of the prover request (block %d, exit hash %s) is not the claim of block %d (exit hash %s)", i, ibe.BlockNumber, fb32(ibe.BridgeExitHash).Hex()[:12], cl.BlockNum, want.Hex()[:12])
			return
		}
		s.rec.Stats.Inc("prover_global_indexes_checked")
	}
	// the L1 info leaf and its proof hash to the root the request names, which is a root of the chain's tree
	root := fb32(in.L1InfoTreeRootHash)
	lf := in.L1InfoTreeLeaf
	if lf == nil || int(lf.L1InfoTreeIndex) >= len(s.l1g.Model.Tree.Roots) || s.l1g.Model.Tree.Roots[lf.L1InfoTreeIndex] != root {
		s.fail("claim-proof", "c09/prover-l1-root", "the prover request names L1 info root %s with last leaf %d; the chain's tree has no such root at that leaf count", root.Hex()[:12], lf.GetL1InfoTreeIndex())
		return
	}
	sib, ok := siblings(in.L1InfoTreeMerkleProof)
	if !ok || RefVerify(l1LeafHashProto(lf), sib, lf.L1InfoTreeIndex) != root {
		s.fail("claim-proof", "c09/prover-l1-proof", "the L1 info leaf %d of the prover request does not hash with its proof to the named root", lf.L1InfoTreeIndex)
		return
	}
	for _, k := range sortedKeys(in.GerLeaves) {
		g := in.GerLeaves[k]
		pl := g.ProvenInsertedGer
		sb, ok := siblings(pl.GetProofGerL1Root())
		if !ok || fb32(pl.ProofGerL1Root.Root) != root || RefVerify(l1LeafHashProto(pl.L1Leaf), sb, pl.L1Leaf.L1InfoTreeIndex) != root {
			s.fail("claim-proof", "c09/prover-ger-proof", "injected GER %s (L1 info leaf %d) of the prover request does not hash with its proof to the named root", k[:12], pl.GetL1Leaf().GetL1InfoTreeIndex())
			return
		}
		if keccak2(fb32(pl.L1Leaf.Mer), fb32(pl.L1Leaf.Rer)) != fb32(pl.L1Leaf.Inner.GlobalExitRoot) || common.HexToHash(k) != fb32(pl.L1Leaf.Inner.GlobalExitRoot) {
			s.fail("claim-proof", "c09/prover-ger", "injected GER %s of the prover request is not the hash of its leaf's exit roots", k[:12])
			return
		}
		s.rec.Stats.Inc("prover_ger_proofs_verified")
	}
	// C17 at the request: the requested range is the largest permitted one
	s.l2r.mu.Lock()
	seen := append([]uint64(nil), s.l2r.lastSeen...)
	s.l2r.mu.Unlock()
	if len(seen) == 0 {
		return
	}
	// a certificate that is sent again (in error, or recovered from the Agglayer after the database was lost)
	// keeps its range: the cut is not taken again
	for _, sub := range s.ag.Subs {
		if sub.From == from && sub.To == to {
			s.rec.Stats.Inc("prover_requests_for_a_known_range")
			return
		}
	}
	synced := seen[len(seen)-1]
	limit := synced
	if m := uint64(s.cfg["max_l2_block"]); m > 0 && m < limit {
		limit = m
	}
	if to > limit {
		s.fail("cut", "c17/beyond-limit", "prover asked to prove up to block %d; last synced block was %d and the configured last block is %d", to, synced, s.cfg["max_l2_block"])
		return
	}
	size := func(end uint64) uint {
		// the size limit is defined on the node's own estimate, which depends on the certificate type
		ct := aggsendertypes.CertificateTypeFEP
		if optimistic {
			ct = aggsendertypes.CertificateTypeOptimistic
		}
		p := &aggsendertypes.CertificateBuildParams{FromBlock: from, ToBlock: end, CertificateType: ct}
		b, c := s.eventsIn(from, end)
		for _, x := range b {
			p.Bridges = append(p.Bridges, *x)
		}
		for _, x := range c {
			p.Claims = append(p.Claims, *x)
		}
		return p.EstimatedSize()
	}
	max := uint(s.cfg["max_cert_size"])
	if max > 0 && size(to) > max && to != from {
		s.fail("cut", "c17/over-size", "prover asked for %d..%d with estimated size %d > limit %d although it spans more than one block", from, to, size(to), max)
		return
	}
	if to < limit {
		if max == 0 || size(to+1) <= max {
			s.fail("cut", "c17/not-maximal", "prover asked to prove up to block %d although block %d is synced, permitted (limit %d) and the range %d..%d still fits the size limit %d (size %d)", to, to+1, limit, from, to+1, max, size(to+1))
			return
		}
		s.rec.Stats.Inc("certs_cut_by_size")
	}
	s.rec.Stats.Inc("cuts_checked")
}

// ---------------------------------------------------------------- L2 GER reader / optimistic mode stubs

// gerReaderStub: the GERs injected on L2 in a block range. In the simulated L2 the global exit root a
// claim is made against is injected in the claim's own block, right before it.
type gerReaderStub struct{ s *senderWorld }

func (g gerReaderStub) GetInjectedGERsForRange(ctx context.Context, fromBlock, toBlock uint64) (map[common.Hash]chaingerreader.InjectedGER, error) {
	switch g.s.w.park(ctx, "l2", "GetInjectedGERsForRange", fmt.Sprintf("%d..%d", fromBlock, toBlock), g.s.pv.epoch) {
	case replyOK:
	case replyDead:
		return nil, errWorldDead
	default:
		return nil, errInjectedRPC
	}
	out := map[common.Hash]chaingerreader.InjectedGER{}
	_, cs := g.s.eventsIn(fromBlock, toBlock)
	for _, c := range cs {
		if _, ok := out[c.GlobalExitRoot]; !ok {
			out[c.GlobalExitRoot] = chaingerreader.InjectedGER{BlockNumber: c.BlockNum, BlockIndex: uint(c.BlockPos), GlobalExitRoot: c.GlobalExitRoot}
		}
	}
	return out, nil
}

type optModeStub struct{ s *senderWorld }

func (o optModeStub) IsOptimisticModeOn() (bool, error) { return o.s.optOn, nil }

// ---------------------------------------------------------------- optimistic signature: real calculator, stubbed inputs

const optimisticPrivKey = "0x7c852118294e51e653712a81e05800f419141751be58f605c371e15141b007a6"

var optimisticAddr = func() common.Address {
	k, err := crypto.HexToECDSA(optimisticPrivKey[2:])
	if err != nil {
		panic(err)
	}
	return crypto.PubkeyToAddress(k.PublicKey)
}()

// optValuesStub answers what the real calculator reads from the FEP contract and the op-node: a fixed function of
// the request, so that the oracle at the prover can recompute the commitment on its own.
type optValuesStub struct{}

func optPublicValues(lastProven, requestedEnd uint64, l1Head common.Hash) *optimistichash.AggregationProofPublicValues {
	return &optimistichash.AggregationProofPublicValues{
		L1Head:           l1Head,
		L2PreRoot:        crypto.Keccak256Hash([]byte("pre"), u64le(lastProven)),
		ClaimRoot:        crypto.Keccak256Hash([]byte("claim"), u64le(requestedEnd)),
		L2BlockNumber:    requestedEnd,
		RollupConfigHash: common.HexToHash("0xc0f1"),
		MultiBlockVKey:   common.HexToHash("0xbeef"),
		ProverAddress:    optimisticAddr,
	}
}

func (optValuesStub) GetAggregationProofPublicValuesData(lastProvenBlock, requestedEndBlock uint64, l1InfoTreeLeafHash common.Hash) (*optimistichash.AggregationProofPublicValues, error) {
	return optPublicValues(lastProvenBlock, requestedEndBlock, l1InfoTreeLeafHash), nil
}

// refExitHashRawMetadata: the exit hash with the metadata bytes themselves in the last position (the hash of nothing
// when there are none) instead of their hash.
func refExitHashRawMetadata(leafType uint8, origNet uint32, origAddr common.Address, destNet uint32, destAddr common.Address, amount *big.Int, metadata []byte) common.Hash {
	var on, dn [4]byte
	binary.BigEndian.PutUint32(on[:], origNet)
	binary.BigEndian.PutUint32(dn[:], destNet)
	var am [32]byte
	if amount != nil {
		ab := amount.Bytes()
		copy(am[32-len(ab):], ab)
	}
	md := metadata
	if len(md) == 0 {
		md = crypto.Keccak256(nil)
	}
	return keccakBytes([]byte{leafType}, on[:], origAddr[:], dn[:], destAddr[:], am[:], md)
}

// newOptimisticSigner: the REAL optimistic.OptimisticSignatureCalculatorImpl (commitment over the claims, signature)
// with a local key.
func newOptimisticSigner(ctx context.Context, logger *log.Logger) (aggsendertypes.OptimisticSigner, error) {
	sg, err := signer.NewSigner(ctx, 0, signer.NewMockSignerConfig(optimisticPrivKey), "optimistic", logger)
	if err != nil {
		return nil, err
	}
	if err := sg.Initialize(ctx); err != nil {
		return nil, err
	}
	return optimistic.NewVerifOptimisticSignatureCalculator(logger, optValuesStub{}, sg), nil
}

// checkOptimisticSignature (at the prover): the signature that accompanies an optimistic request is the trusted
// sequencer's over keccak(public values hash, new local exit root, commitment to the imported exits), the last one
// recomputed here from the chain's claim events: little-endian global index and exit hash per claim.
func (s *senderWorld) checkOptimisticSignature(in *proverv1.GenerateOptimisticAggchainProofRequest) {
	rq := in.AggchainProofRequest
	from, to := rq.LastProvenBlock+1, rq.RequestedEndBlock
	if to < from || rq.L1InfoTreeLeaf == nil || rq.L1InfoTreeLeaf.Inner == nil {
		return
	}
	_, cs := s.eventsIn(from, to)
	// Two forms of a claim's exit hash are accepted (all claims of a request in the same form): the bridge contract's
	// leaf value, which is what the same request carries as the imported exit's hash (judged by c03/prover-imported-
	// exit), and the value over the claim's metadata bytes themselves, which is what this tree's calculator signs for
	// claims with metadata. Which of the two the aggchain prover expects is outside the listed properties (DESIGN.md
	// 14.4, observations); signer, public values, new exit root and every global index are judged.
	var bufLeaf, bufRaw []byte
	for _, cl := range cs {
		if canonGI(cl.GlobalIndex).Cmp(cl.GlobalIndex) != 0 {
			// not a canonical on-chain value (outside C19's quantifier): which of its forms is committed to is not judged
			s.rec.Stats.Inc("optimistic_signature_not_judged_non_canonical_index")
			return
		}
		lt := uint8(0)
		if cl.IsMessage {
			lt = 1
		}
		bufLeaf = append(bufLeaf, leBytes(cl.GlobalIndex)...)
		bufLeaf = append(bufLeaf, refBridgeLeaf(lt, cl.OriginNetwork, cl.OriginAddress, cl.DestinationNetwork, cl.DestinationAddress, cl.Amount, cl.Metadata).Bytes()...)
		bufRaw = append(bufRaw, leBytes(cl.GlobalIndex)...)
		bufRaw = append(bufRaw, refExitHashRawMetadata(lt, cl.OriginNetwork, cl.OriginAddress, cl.DestinationNetwork, cl.DestinationAddress, cl.Amount, cl.Metadata).Bytes()...)
	}
	pvHash, err := optPublicValues(rq.LastProvenBlock, rq.RequestedEndBlock, fb32(rq.L1InfoTreeLeaf.Inner.BlockHash)).Hash()
	if err != nil {
		s.viol = &Violation{Oracle: "harness", Detail: "public values hash: " + err.Error()}
		return
	}
	newLER := fb32(s.pv.ler(to))
	sig := append([]byte(nil), in.GetOptimisticModeSignature().GetValue()...)
	if len(sig) != 65 {
		s.fail("signature", "c10/signature-optimistic", "the optimistic request for blocks %d..%d carries a %d-byte signature", from, to, len(sig))
		return
	}
	if sig[64] >= 27 {
		sig[64] -= 27
	}
	form := ""
	for _, v := range []struct {
		name string
		buf  []byte
	}{{"leaf", bufLeaf}, {"raw", bufRaw}} {
		want := crypto.Keccak256Hash(pvHash[:], newLER.Bytes(), crypto.Keccak256(v.buf))
		if pub, err := crypto.SigToPub(want.Bytes(), sig); err == nil && crypto.PubkeyToAddress(*pub) == optimisticAddr {
			form = v.name
			break
		}
	}
	if form == "" {
		s.fail("signature", "c10/signature-optimistic", "the signature of the optimistic request for blocks %d..%d (%d claims) is not the trusted sequencer's over the commitment recomputed from the chain's claims (global indexes, new exit root %s, public values hash %s)", from, to, len(cs), newLER.Hex()[:12], common.Hash(pvHash).Hex()[:12])
		return
	}
	if form == "raw" && string(bufRaw) != string(bufLeaf) {
		s.rec.Stats.Inc("optimistic_signature_over_raw_metadata_exit_hash")
	}
	s.rec.Stats.Inc("optimistic_signatures_verified")
}

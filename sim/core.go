package sim

// Core of the deterministic simulator: the single PRNG, the op trace
// (record / replay), per-run results, and delta-debugging minimisation.

import (
	"encoding/json"
	"fmt"
	"hash/fnv"
	"os"
	"sort"
	"strings"
	"sync"
)

// ---------------------------------------------------------------- PRNG

// Rand is the only source of randomness in the simulator (splitmix64 stream).
// Logging never draws from it.
type Rand struct{ s uint64 }

func NewRand(seed uint64) *Rand { return &Rand{s: seed ^ 0x9E3779B97F4A7C15} }

func splitmix(x uint64) uint64 {
	x += 0x9E3779B97F4A7C15
	z := x
	z = (z ^ (z >> 30)) * 0xBF58476D1CE4E5B9
	z = (z ^ (z >> 27)) * 0x94D049BB133111EB
	return z ^ (z >> 31)
}

// DeriveSeed gives an independent seed for (master, run).
func DeriveSeed(master uint64, run int) uint64 {
	return splitmix(splitmix(master) ^ splitmix(uint64(run)+0x1234567))
}

func (r *Rand) U64() uint64 {
	r.s += 0x9E3779B97F4A7C15
	z := r.s
	z = (z ^ (z >> 30)) * 0xBF58476D1CE4E5B9
	z = (z ^ (z >> 27)) * 0x94D049BB133111EB
	return z ^ (z >> 31)
}

// Intn returns a value in [0,n). n<=0 returns 0.
func (r *Rand) Intn(n int) int {
	if n <= 0 {
		return 0
	}
	return int(r.U64() % uint64(n))
}

// Range returns a value in [lo,hi].
func (r *Rand) Range(lo, hi int) int {
	if hi <= lo {
		return lo
	}
	return lo + r.Intn(hi-lo+1)
}

func (r *Rand) Bool(pPercent int) bool { return r.Intn(100) < pPercent }

func (r *Rand) Bytes(n int) []byte {
	b := make([]byte, n)
	for i := 0; i < n; i += 8 {
		v := r.U64()
		for j := 0; j < 8 && i+j < n; j++ {
			b[i+j] = byte(v >> (8 * j))
		}
	}
	return b
}

// Pick chooses an index by integer weights (deterministic order).
func (r *Rand) Pick(weights []int) int {
	tot := 0
	for _, w := range weights {
		if w > 0 {
			tot += w
		}
	}
	if tot == 0 {
		return -1
	}
	x := r.Intn(tot)
	for i, w := range weights {
		if w <= 0 {
			continue
		}
		if x < w {
			return i
		}
		x -= w
	}
	return -1
}

// ---------------------------------------------------------------- trace

// Op is one simulator operation. Content that would be bulky (events of a
// block) is derived from a sub-seed in A so that ops stay small and deletion
// of an op keeps later ops meaningful.
type Op struct {
	K string  `json:"k"`
	A []int64 `json:"a,omitempty"`
	S string  `json:"s,omitempty"`
}

func (o Op) Arg(i int) int64 {
	if i < len(o.A) {
		return o.A[i]
	}
	return 0
}

func (o Op) String() string {
	if o.S != "" {
		return fmt.Sprintf("%s%v[%s]", o.K, o.A, o.S)
	}
	return fmt.Sprintf("%s%v", o.K, o.A)
}

type Violation struct {
	Oracle string `json:"oracle"`
	Detail string `json:"detail"`
	// Sig is a seed-independent signature of what fails (used to match known findings).
	Sig string `json:"sig"`
}

// Trace is the replay file format.
type Trace struct {
	Property  string           `json:"property"`
	Engine    string           `json:"engine"`
	Seed      uint64           `json:"seed"`
	Run       int              `json:"run"`
	Tier      string           `json:"tier"`
	Cfg       map[string]int64 `json:"config"`
	Ops       []Op             `json:"ops"`
	Violation *Violation       `json:"violation,omitempty"`
	CodeRev   string           `json:"code_rev,omitempty"`
	Minimised bool             `json:"minimised"`
}

func (t *Trace) Clone() *Trace {
	c := *t
	c.Cfg = map[string]int64{}
	for k, v := range t.Cfg {
		c.Cfg[k] = v
	}
	c.Ops = append([]Op(nil), t.Ops...)
	c.Violation = nil
	return &c
}

func (t *Trace) Save(path string) error {
	b, err := json.MarshalIndent(t, "", " ")
	if err != nil {
		return err
	}
	return os.WriteFile(path, b, 0o644)
}

func LoadTrace(path string) (*Trace, error) {
	b, err := os.ReadFile(path)
	if err != nil {
		return nil, err
	}
	t := &Trace{}
	return t, json.Unmarshal(b, t)
}

// Script feeds ops to an engine: generated from the PRNG (and recorded) or
// replayed from a recorded list. Replay uses no PRNG at all.
type Script struct {
	tr     *Trace
	rng    *Rand
	replay bool
	pos    int
	limit  int
}

func NewGenScript(tr *Trace, rng *Rand, limit int) *Script {
	return &Script{tr: tr, rng: rng, limit: limit}
}
func NewReplayScript(tr *Trace) *Script { return &Script{tr: tr, replay: true} }

func (s *Script) Replay() bool { return s.replay }

// Next returns the next op. In generation mode gen is called with the PRNG
// and the produced op is appended to the trace before it is applied.
func (s *Script) Next(gen func(r *Rand) (Op, bool)) (Op, bool) {
	if s.replay {
		if s.pos >= len(s.tr.Ops) {
			return Op{}, false
		}
		op := s.tr.Ops[s.pos]
		s.pos++
		return op, true
	}
	if len(s.tr.Ops) >= s.limit {
		return Op{}, false
	}
	op, ok := gen(s.rng)
	if !ok {
		return Op{}, false
	}
	s.tr.Ops = append(s.tr.Ops, op)
	return op, true
}

// ---------------------------------------------------------------- results

type Stats map[string]int64

// statsMu guards every Stats map: node goroutines report probes too.
var statsMu sync.Mutex

func (s Stats) Inc(k string) { statsMu.Lock(); s[k]++; statsMu.Unlock() }
func (s Stats) Add(k string, v int64) {
	statsMu.Lock()
	s[k] += v
	statsMu.Unlock()
}
func (s Stats) Merge(o Stats) {
	for k, v := range o {
		s[k] += v
	}
}

// RunResult is what one simulated run reports (one JSON line per run).
type RunResult struct {
	Property    string     `json:"property"`
	Run         int        `json:"run"`
	Seed        uint64     `json:"seed"`
	Ops         int        `json:"ops"`
	Steps       int64      `json:"steps"`
	SimTimeMs   int64      `json:"sim_ms"`
	WallUs      int64      `json:"wall_us"`
	Fingerprint string     `json:"fp"`
	Nontrivial  bool       `json:"nontrivial"`
	States      []string   `json:"-"`
	NStates     int        `json:"nstates"`
	StateHashes []uint64   `json:"sh,omitempty"`
	Stats       Stats      `json:"stats"`
	Violation   *Violation `json:"violation,omitempty"`
	Replay      string     `json:"replay,omitempty"`
	Sample      *Trace     `json:"sample,omitempty"`
	Harness     string     `json:"harness_error,omitempty"`
	EventLog    string     `json:"-"`
}

// Recorder accumulates the run fingerprint, the quiescent-state digests and
// the event log used by the determinism self-test.
type Recorder struct {
	fp      []string
	states  map[uint64]struct{}
	order   []uint64
	log     strings.Builder
	Stats   Stats
	keepLog bool
}

func NewRecorder(keepLog bool) *Recorder {
	return &Recorder{states: map[uint64]struct{}{}, Stats: Stats{}, keepLog: keepLog}
}

func h64(s string) uint64 {
	h := fnv.New64a()
	h.Write([]byte(s))
	return h.Sum64()
}

// Event adds to the event log (determinism self-test) — never draws randomness.
func (r *Recorder) Event(format string, a ...any) {
	statsMu.Lock()
	defer statsMu.Unlock()
	if r.keepLog {
		fmt.Fprintf(&r.log, format, a...)
		r.log.WriteByte('\n')
	}
}

// Step adds an abstract step to the fingerprint.
func (r *Recorder) Step(s string) { r.fp = append(r.fp, s) }

// State records a reached state digest.
func (r *Recorder) State(digest string) {
	h := h64(digest)
	if _, ok := r.states[h]; !ok {
		r.states[h] = struct{}{}
		r.order = append(r.order, h)
	}
}

func (r *Recorder) Fingerprint() string {
	return fmt.Sprintf("%016x", h64(strings.Join(r.fp, "|")))
}

func (r *Recorder) Fill(res *RunResult) {
	res.Fingerprint = r.Fingerprint()
	res.NStates = len(r.order)
	res.StateHashes = r.order
	if len(res.StateHashes) > 64 {
		res.StateHashes = res.StateHashes[:64]
	}
	res.Stats = r.Stats
	res.EventLog = r.log.String()
}

// ---------------------------------------------------------------- minimise

// Minimise is ddmin over the op list, then single-op removal, keeping a
// candidate only if a fresh replay fails the same oracle of the same property.
func Minimise(tr *Trace, sameFailure func(*Trace) *Violation, budget int) *Trace {
	best := tr.Clone()
	best.Violation = tr.Violation
	want := tr.Violation.Oracle
	tries := 0
	try := func(ops []Op) *Violation {
		if tries >= budget {
			return nil
		}
		tries++
		c := best.Clone()
		c.Ops = ops
		v := sameFailure(c)
		if v != nil && v.Oracle == want {
			return v
		}
		return nil
	}
	n := 2
	for len(best.Ops) >= 2 && tries < budget {
		chunk := (len(best.Ops) + n - 1) / n
		reduced := false
		for start := 0; start < len(best.Ops); start += chunk {
			end := start + chunk
			if end > len(best.Ops) {
				end = len(best.Ops)
			}
			cand := append(append([]Op(nil), best.Ops[:start]...), best.Ops[end:]...)
			if v := try(cand); v != nil {
				best.Ops = cand
				best.Violation = v
				n = max(n-1, 2)
				reduced = true
				break
			}
		}
		if !reduced {
			if chunk == 1 {
				break
			}
			n = min(n*2, len(best.Ops))
		}
	}
	// final single-op sweep (from the end, cheap wins)
	for i := len(best.Ops) - 1; i >= 0 && tries < budget; i-- {
		cand := append(append([]Op(nil), best.Ops[:i]...), best.Ops[i+1:]...)
		if v := try(cand); v != nil {
			best.Ops = cand
			best.Violation = v
		}
	}
	best.Minimised = true
	return best
}

// sortedKeys is the only way simulator maps are iterated.
func sortedKeys[V any](m map[string]V) []string {
	ks := make([]string, 0, len(m))
	for k := range m {
		ks = append(ks, k)
	}
	sort.Strings(ks)
	return ks
}

#!/bin/bash
# usage: seedcheck.sh <ID> <pkgs-to-test...>   validates a sub-agent's seeded change in its scratch worktree
ID=$1; shift; WT=${WTP:-/tmp/wt-}$ID; OUT=${OUTD:-/tmp/seeded-out}/$ID
export GOFLAGS=-mod=mod GOPROXY=off
cd $WT || exit 1
echo "== files"; ls $OUT; echo "== patch stat"; git -C $WT diff --stat | tail -3
DEMO=$(cat $OUT/demo_cmd.txt | grep -v '^#' | grep "go test" | head -1)
echo "== demo cmd: $DEMO"
echo "== demo WITH change"; (eval "$DEMO") 2>&1 | grep -E "^(--- FAIL|--- PASS|FAIL|ok|PASS)" | head -8
git diff -- . ':(exclude)*zz_seeded*' > /tmp/seed-$ID.diff
git apply -R /tmp/seed-$ID.diff && echo "== demo WITHOUT change" && (eval "$DEMO") 2>&1 | grep -E "^(--- FAIL|--- PASS|FAIL|ok|PASS)" | head -8
git apply /tmp/seed-$ID.diff
echo "== existing tests WITH change (demo moved aside)"
mkdir -p /tmp/seed-demo-$ID; for f in $(git ls-files --others --exclude-standard | grep zz_seeded); do mkdir -p /tmp/seed-demo-$ID/$(dirname $f); mv $f /tmp/seed-demo-$ID/$f; done
go build ./... && go test -vet=off -count=1 "$@" 2>&1 | grep -E "^(--- FAIL|FAIL|ok)" | head -20
for f in $(cd /tmp/seed-demo-$ID && find . -type f); do mv /tmp/seed-demo-$ID/$f $WT/$f; done
cmp <(git diff -- . ':(exclude)*zz_seeded*') $OUT/patch.diff >/dev/null && echo "== patch.diff matches worktree diff" || echo "== NOTE patch.diff differs from worktree diff"

"""Per-property metadata used by ./check for budgets and the evidence files."""

STORE_REAL = ["bridgesync processor (ProcessBlock, Reorg, all queries through *BridgeSync)",
              "l1infotreesync processor (+ *L1InfoTreeSync facade)", "lastgersync processor (+ *LastGERSync facade)",
              "tree.AppendOnlyTree / tree.UpdatableTree", "db.Tx rollback/commit callbacks", "db/meddler codecs",
              "SQLite (mattn go-sqlite3, WAL, foreign keys) incl. its migrations"]
STORE_STUB = ["events are generated as typed structs (no RPC, no log decoding) in storesim; the chain is the op list"]
COMMON_ASSUME = ["SQLite's atomic commit / WAL recovery is trusted (faults are injected at statement and transaction level, not beneath SQLite)",
                 "a clean batch is evidence from seeded sampling, not proof"]

PROPS = {
    "C04": {
        "level": "exploration", "engine": "storesim",
        "rule": "one run = swarm-configured op list over one of the three real stores: {process generated block, reorg at any depth incl. above tip / first block, restart, twin check}; after every reorg and at the end the store is compared query by query with a FRESH real store that only processed the surviving blocks, and with the naive reference model (roots, proofs, event lists) after every op. A run is non-trivial when at least one reorg dropped >=1 stored block and a twin comparison ran; distinct = distinct fingerprints of the sequence (op kind, #events / #blocks dropped).",
        "tiers": {"quick": {"runs": 480, "budget_s": 60, "selftest_seeds": 6, "selftest_procs": 6},
                  "thorough": {"runs": 6000, "budget_s": 600, "selftest_seeds": 30, "selftest_procs": 30, "master_seeds": 3}},
        "probes": ["reorgs_dropping_blocks", "reorgs_above_tip", "reorgs_to_empty", "restarts", "twin_checks"],
        "real": STORE_REAL, "stub": STORE_STUB,
        "assumptions": COMMON_ASSUME + ["ties in ORDER BY (token mappings ordered by block only) are compared as multisets"],
    },
    "C07": {
        "level": "fault_enumeration", "engine": "storesim",
        "rule": "one run = op list over one real store mixing fault-free blocks with blocks processed under injected storage faults: deny the k-th statement (authorizer), turn COMMIT into ROLLBACK (commit hook), deny BEGIN, disk-full (all writes denied), mid-transaction crash image (database files copied while statement k is compiled, reopened as a restarted node), and complete enumeration of every statement position of a block's transaction (cumulative, and per position with clean retry + rewind). After each failed attempt all tables must equal the pre-block state; after the clean retry roots/proofs/events must equal the naive reference; at the end all queries must equal a fault-free fresh store. Non-trivial = at least one fault actually fired inside a block transaction or a crash image was taken; distinct = distinct op-sequence fingerprints.",
        "tiers": {"quick": {"runs": 320, "budget_s": 70, "selftest_seeds": 6, "selftest_procs": 6},
                  "thorough": {"runs": 4000, "budget_s": 700, "selftest_seeds": 30, "selftest_procs": 30, "master_seeds": 3}},
        "probes": ["fault_fired_stmt", "fault_fired_commit", "fault_fired_begin", "fault_fired_diskfull", "crash_images_mid_tx", "enum_blocks", "restarts"],
        "real": STORE_REAL, "stub": STORE_STUB,
        "assumptions": COMMON_ASSUME + ["context cancellation mid-block is covered by its two deterministic equivalents: statement failure (rollback callbacks run) and COMMIT failure (callbacks skipped because database/sql already finished the Tx)",
                                        "content-addressed rht node rows are excluded from the table comparison (never deleted by design)"],
    },
    "C08": {
        "level": "exploration", "engine": "storesim",
        "rule": "one run = op list (blocks, reorgs, restarts) over the bridge store or the L1 info store; after every op, for all (root,index) pairs of small trees and a sample of larger ones incl. historical roots, the proof returned by GetProof / GetL1InfoTreeMerkleProof / ...FromIndexToRoot / GetRollupExitTreeMerkleProof is verified with an independent verifier against the reference root, and GetLocalExitRoot leaves are compared with the reference sparse tree as of that root. Non-trivial = >2 tree events and reference checks ran; distinct = distinct op-sequence fingerprints.",
        "tiers": {"quick": {"runs": 320, "budget_s": 70, "selftest_seeds": 6, "selftest_procs": 6},
                  "thorough": {"runs": 4000, "budget_s": 700, "selftest_seeds": 30, "selftest_procs": 30, "master_seeds": 3}},
        "probes": ["ref_checks", "reorgs_dropping_blocks", "restarts"],
        "real": STORE_REAL, "stub": STORE_STUB,
        "assumptions": COMMON_ASSUME,
    },
    "C14": {
        "level": "exploration", "engine": "storesim",
        "rule": "one run = three real stores (A and C fed identically, B differently) of the bridge or L1 info syncer: healthy blocks, then a block that contradicts the tree (deposit-count gap / shifted / repeated count; corrupted UpdateL1InfoTreeV2 root or leaf count), then any mix of {further blocks, query sweeps, reorgs above every stored block, reorgs dropping blocks}. While halted EVERY exported method of the facade (enumerated by reflection, 4 argument tuples each) must return the inconsistency error or provably not read the store (same answer on A and B, and same answer on C whose database handle is closed); ProcessBlock must fail with the inconsistency error and change nothing; an empty reorg must not clear the state, a reorg that deletes >=1 block row must. Non-trivial = the halted state was reached and methods were enumerated; distinct = distinct op-sequence fingerprints.",
        "tiers": {"quick": {"runs": 320, "budget_s": 60, "selftest_seeds": 6, "selftest_procs": 6},
                  "thorough": {"runs": 5000, "budget_s": 600, "selftest_seeds": 30, "selftest_procs": 30, "master_seeds": 3}},
        "probes": ["halts", "methods_enumerated", "halted_calls_guarded", "halted_calls_storefree", "empty_reorgs_while_halted", "unhalting_reorgs", "blocks_refused_while_halted"],
        "real": STORE_REAL, "stub": STORE_STUB + ["reorg detector behind GetLastReorgEvent is a stub (not a data query of the store)"],
        "assumptions": COMMON_ASSUME + ["the halted flag is process memory: restarts while halted are not part of the property and are not generated",
                                        "the driver-level clause (no block is handed over while halted) is observed at the processor boundary: ProcessBlock refuses and stores nothing"],
    },
    "C05": {
        "level": "exploration", "engine": "syncsim",
        "rule": "one run = real EVMDownloader + EVMDriver + ReorgDetector(SQLite) inside a synctest bubble against a fake chain that only grows; swarm config (chunk 1..64, buffer 1..1000, poll/retry/reorg-check periods, syncer tag and detector tag in {Latest,Safe,Finalized}, restart-from-block, log density, 'tip is finalized'); ops {mine 1..9 blocks with watched/noise/removed logs, advance finalized/safe by 0..6, release one parked RPC of a component (ok / transient error / NotFound), advance the fake clock, fail the next ProcessBlock}; every delivery is checked online (strictly increasing, no watched block skipped, hash and events = chain logs in log order), then faults stop and a fair drain must deliver every watched block <= tip within a step bound. Non-trivial = >=2 event blocks delivered; distinct = distinct fingerprints of the (op kind, released component/method/mode) sequence.",
        "tiers": {"quick": {"runs": 4000, "budget_s": 60, "selftest_seeds": 40, "selftest_procs": 9},
                  "thorough": {"runs": 120000, "budget_s": 600, "selftest_seeds": 300, "selftest_procs": 30, "master_seeds": 3}},
        "probes": ["event_blocks_delivered", "empty_blocks_delivered", "fault_processblock_error", "rpc_fault_1_HeaderByNumber", "rpc_fault_1_FilterLogs", "rpc_fault_2_HeaderByNumber", "drain_steps"],
        "real": ["sync.EVMDownloader (Download loop, WaitForNewBlocks, GetEventsByBlockRange, GetLogs, GetBlockHeader)", "sync.EVMDriver (Sync, handleNewBlock, retry handler)", "reorgdetector.ReorgDetector with its SQLite database (AddBlockToTrack, ticker loop)", "db/compatibility check"],
        "stub": ["L1 chain and its RPC (fakechain: blocks, logs, safe/finalized pointers)", "the store is a recording processor that checks each delivery online", "Go select choice / goroutine order are not seedable: the scheduler keeps at most one causal chain runnable (DESIGN section 4)"],
        "assumptions": COMMON_ASSUME + ["no reorgs and no stale RPC views in this property (pointers only advance); C06 covers reorgs",
                                        "anonymous (zero-topic) logs from a watched address are not generated"],
    },
    "C06": {
        "level": "exploration", "engine": "syncsim",
        "rule": "one run = the real L1 info tree syncer (l1infotreesync.New: processor+SQLite, appenders decoding ABI-encoded logs, EVMDownloader, EVMDriver) and the real ReorgDetector(SQLite) in a synctest bubble against a forking fake chain; ops {mine 1..7 blocks with UpdateL1InfoTree/V2/VerifyBatches logs, fork at any depth above the detector's pointer with a shorter/equal/longer branch and different events, advance finalized/safe, release one parked RPC (ok/transient/NotFound), advance the clock, crash+restart with either Start/Subscribe serialisation}; at every quiescent point a processed block may only disappear if some processed block had been replaced; after the op list the chain stops changing (and is extended past its old height), faults stop, and within a step bound the block table must be canonical and complete and the store must equal the naive reference of the final chain (leaves, roots, proofs, rollup exit tree). Non-trivial = a processed block was actually replaced by a fork; distinct = distinct fingerprints of (op, released component/method/mode).",
        "tiers": {"quick": {"runs": 1600, "budget_s": 70, "selftest_seeds": 30, "selftest_procs": 9, "chunk": 100},
                  "thorough": {"runs": 24000, "budget_s": 700, "selftest_seeds": 300, "selftest_procs": 30, "master_seeds": 3, "chunk": 100}},
        "probes": ["forks", "forks_shortening", "blocks_rewound", "crash_restart", "crash_restart_subscribe_first", "runs_with_replaced_processed_block", "rpc_fault_1_HeaderByNumber"],
        "real": ["l1infotreesync.New (processor, SQLite, appenders, trees)", "sync.EVMDownloader / sync.EVMDriver (handleNewBlock, handleReorg)", "reorgdetector.ReorgDetector with SQLite (tracking, ticker, detection, notification, persistence across restarts)"],
        "stub": ["L1 chain and its RPC (fakechain with forks)", "crash = all goroutines stopped at a quiescent point, objects rebuilt on the same SQLite files (no transaction is open at a quiescent point)"],
        "assumptions": COMMON_ASSUME + ["one subscriber per ReorgDetector instance (mutex held across an RPC is not durably blocking under synctest)",
                                        "forks never go at or below the pointer the detector is configured with; the chain eventually grows past its previous height",
                                        "several select cases ready at once (blocks buffered while a reorg notification arrives) are not explored through the real select; storesim covers both orders at store level",
                                        "with -tags verif the driver blocks instead of spinning on a closed download channel (hook sync/verif_hooks_on.go)"],
    },
}

#!/bin/sh
# Build the simulator once (warms the Go build cache); offline.
set -e
cd "$(dirname "$0")"
export GOFLAGS=-mod=mod GOPROXY=off GOSUMDB=off GOTOOLCHAIN=local
mkdir -p bin evidence out
cp /repo/go.sum sim/go.sum
(cd sim && go1.26.8 test -c -tags verif -o ../bin/sim.test .)
echo setup ok
